------------------------------ MODULE OpenApi ------------------------------
(***************************************************************************)
(* C15 -- the generated OpenAPI document is valid and describes exactly    *)
(* the application.                                                        *)
(*                                                                         *)
(* Vocabulary: the applications of RouterApp, extended per route item by   *)
(*   sig   : [pv, ex, rt]  handler signature tag from the catalogue that   *)
(*           is compiled into the harness (harness/src/openapi.rs)         *)
(*   fangs / local : sequences of fang KINDS                               *)
(*           "jwt" "jwth" "jwtc" "basic" (authentication), "tag", "plain"  *)
(*   a param segment carries its NAME token in `s`: [k |-> "P", s |-> <<"x">>] *)
(*                                                                         *)
(* Layer (a)  DocValid / DocMatchesApp / Reachable over the FACTS into     *)
(*            which the harness flattens the real document (`Violations`). *)
(* Layer (b)  the mechanism: Ohkami::new (register_handlers /              *)
(*            merge_another / apply_fangs, base.rs), finalize (Router's    *)
(*            Finalize), gen_openapi_doc (final.rs:64-138: the operation   *)
(*            is looked up with search_target on the TEMPLATE path, path   *)
(*            parameter names are assigned in route order to the           *)
(*            parameters the HANDLER declared) -- `ModelOps`.              *)
(***************************************************************************)
EXTENDS RouterApp

\* ------------------------------------------------------------------------------------------ the catalogue
PVs    == {"p0", "u", "i", "s", "tu", "us", "si"}      \* (), (u32), (i64), (String), ((u32,)), ((u32,String)), ((String,i64))
ExFull == {"none", "q", "qc", "j", "jc", "jb", "jn", "oj", "u", "m", "qj"}
ExCore == {"none", "q", "j", "qj"}
RtFull == {"text", "string", "json", "jsonc", "jvec", "created", "nocontent", "result", "resultc"}
RtCore == {"text", "json", "created"}
Sig(pv, ex, rt) == [pv |-> pv, ex |-> ex, rt |-> rt]
Catalogue == {Sig(pv, ex, rt) : pv \in {"p0", "u"}, ex \in ExFull, rt \in RtFull}
        \cup {Sig(pv, ex, rt) : pv \in PVs \ {"p0", "u"}, ex \in ExCore, rt \in RtCore}
Named     == {Sig("n0", "none", "text"), Sig("nu", "none", "json")}    \* named fn handlers (operationId), ids 1..12
\* number of path parameters the handler declares
HandlerNP(pv) == IF pv \in {"p0", "n0"} THEN 0 ELSE IF pv \in {"us", "si"} THEN 2 ELSE 1
\* media types of the request body extractor: JSON<..>, URLEncoded<..>, Multipart<..>
BodyMimes(ex) == IF ex \in {"j", "jc", "jb", "jn", "oj", "qj"} THEN {"application/json"}
                 ELSE IF ex = "u" THEN {"application/x-www-form-urlencoded"}
                 ELSE IF ex = "m" THEN {"multipart/form-data"} ELSE {}
\* field names of the Query<..> struct
QueryNames(ex) == IF ex \in {"q", "qj"} THEN {"q", "limit", "n"} ELSE IF ex = "qc" THEN {"page", "tag"} ELSE {}
\* ... and those of them the extractor cannot do without (QPlain declares `q` before `limit`: not in alphabetical order)
QueryRequired(ex) == IF ex \in {"q", "qj"} THEN {"q", "limit"} ELSE IF ex = "qc" THEN {"page"} ELSE {}
\* statuses of the return type (MyError documents 400 and 500)
RetStatuses(rt) == IF rt \in {"text", "string", "json", "jsonc", "jvec"} THEN {"200"}
                   ELSE IF rt = "created" THEN {"201"} ELSE IF rt = "nocontent" THEN {"204"}
                   ELSE IF rt = "result" THEN {"200", "400", "500"} ELSE {"201", "400", "500"}
AuthKinds == {"jwt", "jwth", "jwtc", "basic"}

\* ------------------------------------------------------------------------------------------ applications
NParamsOf(r) == Cardinality({i \in DOMAIN r : r[i].k = "P"})
ParamNames(r) == LET idx == SelectSeq([i \in 1..Len(r) |-> i], LAMBDA i : r[i].k = "P") IN [j \in DOMAIN idx |-> r[idx[j]].s]
RouteItems(apps) == UNION {{it \in SeqToSet(apps[mt.app].items) : it.t = "route"} : mt \in AllMounts(apps)}
SigOfH(apps, h) == (CHOOSE it \in RouteItems(apps) : it.h = h).sig
Guards(apps, x) == SeqToSet(FangsOfChain(apps, x.chain)) \cup SeqToSet(x.local)
Guarded(apps, x) == Guards(apps, x) \cap AuthKinds # {}
\* the registered (route, method) pairs; HEAD and OPTIONS are answered implicitly and are not registered
RegisteredPairs(apps) == UNION {{<<x.route, m>> : m \in x.methods} : x \in AllRoutes(apps)}
RouteFor(apps, tmpl, m) == CHOOSE x \in AllRoutes(apps) : x.route = tmpl /\ m \in x.methods
\* fixed-order label of the authentication fangs guarding a route
AuthLabel(G) == (IF "jwt" \in G THEN "jwt+" ELSE "") \o (IF "jwth" \in G THEN "jwth+" ELSE "") \o
                (IF "jwtc" \in G THEN "jwtc+" ELSE "") \o (IF "basic" \in G THEN "basic+" ELSE "") \o
                (IF G \cap AuthKinds = {} THEN "none" ELSE "")

\* ------------------------------------------------------------------------------------------ layer (a): DocValid
\* the part of JSON Schema 2020-12 that applies to the keywords ohkami_openapi::schema::RawSchema can emit
JsonTypes   == {"null", "boolean", "object", "array", "number", "string", "integer"}
SchemaKinds == {"object", "boolean"}          \* a schema is an object or a boolean
Numbers     == {"integer", "number"}
AllKinds(f, K) == \A i \in DOMAIN f.ekinds : f.ekinds[i] \in K
NoDup(q) == \A i, j \in DOMAIN q : i # j => q[i] # q[j]
\* class of one keyword fact [kw, kind, strs, n, ekinds, sgn, ok]: "ok" or what is wrong with it
KwClass(f) ==
  CASE f.kw = "type" ->
         IF f.kind = "string" THEN (IF f.strs[1] \in JsonTypes THEN "ok" ELSE "type-name")
         ELSE IF f.kind = "array"
           THEN (IF f.n >= 1 /\ AllKinds(f, {"string"}) /\ (\A i \in DOMAIN f.strs : f.strs[i] \in JsonTypes) /\ NoDup(f.strs) THEN "ok" ELSE "type-name")
           ELSE "value-kind"
    [] f.kw = "required" ->
         IF f.kind # "array" THEN "value-kind" ELSE IF ~AllKinds(f, {"string"}) THEN "element-kind" ELSE IF ~NoDup(f.strs) THEN "duplicates" ELSE "ok"
    [] f.kw = "properties" -> IF f.kind # "object" THEN "value-kind" ELSE IF AllKinds(f, SchemaKinds) THEN "ok" ELSE "element-kind"
    [] f.kw = "items" -> IF f.kind \in SchemaKinds THEN "ok" ELSE "value-kind"
    [] f.kw \in {"anyOf", "allOf", "oneOf"} ->
         IF f.kind # "array" THEN "value-kind" ELSE IF f.n = 0 THEN "empty" ELSE IF AllKinds(f, SchemaKinds) THEN "ok" ELSE "element-kind"
    [] f.kw = "enum" -> IF f.kind = "array" THEN "ok" ELSE "value-kind"
    [] f.kw \in {"format", "pattern", "description"} -> IF f.kind = "string" THEN "ok" ELSE "value-kind"
    [] f.kw = "$ref" -> IF f.kind # "string" THEN "value-kind" ELSE IF f.ok THEN "ok" ELSE "unresolvable"
    [] f.kw \in {"maximum", "minimum", "exclusiveMaximum", "exclusiveMinimum"} -> IF f.kind \in Numbers THEN "ok" ELSE "value-kind"
    [] f.kw = "multipleOf" -> IF f.kind \notin Numbers THEN "value-kind" ELSE IF f.sgn = "pos" THEN "ok" ELSE "not-positive"
    [] f.kw \in {"maxLength", "minLength", "maxItems", "minItems", "maxProperties", "minProperties"} ->
         IF f.kind # "integer" THEN "value-kind" ELSE IF f.sgn = "neg" THEN "negative" ELSE "ok"
    [] f.kw \in {"uniqueItems", "deprecated", "readOnly", "writeOnly"} -> IF f.kind = "boolean" THEN "ok" ELSE "value-kind"
    [] OTHER -> "ok"     \* default / example take any value; unknown keywords (e.g. `nullable`) are permitted by JSON Schema
KwValue(f) == IF KwClass(f) = "type-name" THEN (IF f.strs = <<>> THEN "" ELSE f.strs[1]) ELSE f.kind
SchemaNodeOK(n) == n.self \in SchemaKinds /\ \A i \in DOMAIN n.kws : KwClass(n.kws[i]) = "ok"
DocSchemasValid(F) == \A i \in DOMAIN F.nodes : SchemaNodeOK(F.nodes[i])
DocRefsResolve(F) == \A i \in DOMAIN F.nodes : \A j \in DOMAIN F.nodes[i].kws : F.nodes[i].kws[j].kw = "$ref" => F.nodes[i].kws[j].ok
DocHeaderOK(F) == F.isObject /\ F.version # "" /\ F.hasInfo /\ F.hasTitle /\ F.hasInfoVersion /\ F.hasPaths

\* path parameters of one operation against the template it sits under: "ok" or the class of the mismatch
CountIn(q, v) == Cardinality({i \in DOMAIN q : q[i] = v})
PathDecl(op) == SelectSeq(op.params, LAMBDA p : p["in"] = "path")
ParamClass(tmpl, op) ==
  LET names == ParamNames(tmpl)
      decl  == PathDecl(op)
      dn    == [i \in DOMAIN decl |-> decl[i].abs] IN
  IF \E i \in DOMAIN names : CountIn(dn, names[i]) < CountIn(names, names[i]) THEN "template-param-undeclared"
  ELSE IF \E i \in DOMAIN dn : CountIn(names, dn[i]) < CountIn(dn, dn[i]) THEN "path-param-not-in-template"
  ELSE IF \E i \in DOMAIN decl : ~decl[i].required THEN "path-param-not-required"
  ELSE IF dn # names THEN "path-params-order" ELSE "ok"
SchemeNames(F) == {F.schemes[i].name : i \in DOMAIN F.schemes}
OpsOf(F) == UNION {{[tmpl |-> F.paths[i].tmpl, raw |-> F.paths[i].raw, op |-> F.paths[i].ops[j]] : j \in DOMAIN F.paths[i].ops} : i \in DOMAIN F.paths}
DocTemplatesOK(F) == \A o \in OpsOf(F) : ParamClass(o.tmpl, o.op) = "ok"
DocSecurityDeclared(F) == \A o \in OpsOf(F) : SeqToSet(o.op.security) \subseteq SchemeNames(F)
DocValid(F) == DocHeaderOK(F) /\ DocSchemasValid(F) /\ DocRefsResolve(F) /\ DocTemplatesOK(F) /\ DocSecurityDeclared(F)

\* ------------------------------------------------------------------------------------------ layer (a): DocMatchesApp
DocPairs(F) == {<<o.tmpl, o.op.method>> : o \in OpsOf(F)}
PairsMatch(apps, pairs) == pairs = RegisteredPairs(apps)
QueryDecl(op) == {op.params[i].name : i \in {j \in DOMAIN op.params : op.params[j]["in"] = "query"}}
StatusesOf(op) == {op.statuses[i].code : i \in DOMAIN op.statuses}
BodyMatches(sig, op)     == IF BodyMimes(sig.ex) = {} THEN ~op.hasBody ELSE op.hasBody /\ SeqToSet(op.body) = BodyMimes(sig.ex)
QueryMatches(sig, op)    == QueryDecl(op) = QueryNames(sig.ex)
StatusesMatch(sig, op)   == RetStatuses(sig.rt) \subseteq StatusesOf(op)
SecurityMatches(apps, x, hasSec) == hasSec <=> Guarded(apps, x)
OpMatches(apps, o) ==
  LET x == RouteFor(apps, o.tmpl, o.op.method)  sg == SigOfH(apps, x.h) IN
  /\ ParamClass(x.route, o.op) = "ok"
  /\ BodyMatches(sg, o.op) /\ QueryMatches(sg, o.op) /\ StatusesMatch(sg, o.op)
  /\ SecurityMatches(apps, x, o.op.security # <<>>)
DocMatchesApp(apps, F) == /\ PairsMatch(apps, DocPairs(F))
                          /\ \A o \in OpsOf(F) : <<o.tmpl, o.op.method>> \in RegisteredPairs(apps) => OpMatches(apps, o)
\* a request built from any documented operation reaches a handler; every reachable handler is documented
Reachable(apps, F) == /\ \A i \in DOMAIN F.reach : F.reach[i].h # 0
                      /\ \A i \in DOMAIN F.probes : F.probes[i].ran # 0 =>
                            \E x \in AllRoutes(apps) : x.h = F.probes[i].ran /\ <<x.route, F.probes[i].method>> \in DocPairs(F)
Holds(apps, F) == DocValid(F) /\ DocMatchesApp(apps, F) /\ Reachable(apps, F)

\* ------------------------------------------------------------------------------------------ the same, itemised
\* every way in which the facts fall outside the property, as signature records [class, kw, val, cfg]:
\* `class` (+ kw, val) = the class of the offending fact, `cfg` = the class of the configuration it occurred in.
\* Violations(apps, F) = {} <=> Holds(apps, F)   (checked by TLC on every trace line: `Consistent` in Trace_OpenApi)
V(class, kw, val, cfg) == [class |-> class, kw |-> kw, val |-> val, cfg |-> cfg]
HasEx(apps, ex) == \E it \in RouteItems(apps) : it.sig.ex = ex
KwCfg(apps, f) ==
  IF f.kw = "type" THEN (IF HasEx(apps, "jb") THEN "a-field-schema-is-openapi::bool()" ELSE "no-openapi::bool()-schema")
  ELSE IF f.kw \in {"exclusiveMaximum", "exclusiveMinimum", "maximum", "minimum", "multipleOf", "minItems", "maxItems", "uniqueItems"}
    THEN (IF HasEx(apps, "jn") THEN "a-field-schema-has-numeric-bounds" ELSE "no-numeric-bounds-schema")
  ELSE "derived-schemas"
Registered(apps, tmpl, m) == <<tmpl, m>> \in RegisteredPairs(apps)
NpCfg(apps, tmpl, m) ==
  IF ~Registered(apps, tmpl, m) THEN "operation-of-no-registered-route"
  ELSE LET x == RouteFor(apps, tmpl, m) IN
       IF HandlerNP(SigOfH(apps, x.h).pv) < NParamsOf(x.route) THEN "handler-declares-fewer-params-than-route" ELSE "handler-declares-every-route-param"
Shape(apps) == IF Len(apps) = 1 THEN "flat" ELSE "mounted"
GuardCfg(apps, x) == (IF SeqToSet(x.local) \cap AuthKinds # {} THEN "local+" ELSE "") \o
                     (IF SeqToSet(FangsOfChain(apps, x.chain)) \cap AuthKinds # {} THEN "app+" ELSE "") \o "auth=" \o AuthLabel(Guards(apps, x))
ReachCfg(apps, tmpl, m) ==
  IF ~Registered(apps, tmpl, m) THEN "operation-of-no-registered-route"
  ELSE LET x == RouteFor(apps, tmpl, m) IN
       IF "jwtc" \in Guards(apps, x) THEN "guarded-by-jwt-with-token-in-cookie"
       ELSE "auth=" \o AuthLabel(Guards(apps, x)) \o "/ex=" \o SigOfH(apps, x.h).ex

HeaderV(F) == IF DocHeaderOK(F) THEN {} ELSE {V("document-header", "", F.version, "")}
NodeV(apps, n) == (IF n.self \in SchemaKinds THEN {} ELSE {V("schema-not-object-or-boolean", "", n.self, "")})
                  \cup {V("schema-" \o KwClass(f), f.kw, KwValue(f), KwCfg(apps, f)) : f \in {g \in SeqToSet(n.kws) : KwClass(g) # "ok"}}
SchemaV(apps, F) == UNION {NodeV(apps, F.nodes[i]) : i \in DOMAIN F.nodes}
OpV(apps, F, o) ==
  LET m == o.op.method
      pc == ParamClass(o.tmpl, o.op) IN
  (IF pc = "ok" THEN {} ELSE {V(pc, "", "", NpCfg(apps, o.tmpl, m))})
  \cup {V("security-scheme-undeclared", "", nm, "") : nm \in SeqToSet(o.op.security) \ SchemeNames(F)}
  \cup (IF ~Registered(apps, o.tmpl, m) THEN {V("documented-but-not-registered", "", m, Shape(apps))}
        ELSE LET x == RouteFor(apps, o.tmpl, m)  sg == SigOfH(apps, x.h) IN
             (IF BodyMatches(sg, o.op) THEN {} ELSE {V(IF o.op.hasBody THEN (IF BodyMimes(sg.ex) = {} THEN "request-body-unexpected" ELSE "request-body-media-type") ELSE "request-body-missing", "", "", "ex=" \o sg.ex)})
             \cup (IF QueryMatches(sg, o.op) THEN {} ELSE {V("query-parameters-differ", "", "", "ex=" \o sg.ex)})
             \cup {V("response-status-missing", "", c, "rt=" \o sg.rt) : c \in RetStatuses(sg.rt) \ StatusesOf(o.op)}
             \cup (IF SecurityMatches(apps, x, o.op.security # <<>>) THEN {}
                   ELSE {V(IF Guarded(apps, x) THEN "security-missing-on-guarded-route" ELSE "security-on-unguarded-route", "", "", GuardCfg(apps, x))}))
PairsV(apps, F) == {V("registered-but-undocumented", "", pr[2], Shape(apps)) : pr \in RegisteredPairs(apps) \ DocPairs(F)}
TmplOfRaw(F, raw) == (CHOOSE i \in DOMAIN F.paths : F.paths[i].raw = raw)
ReachV(apps, F) ==
  {V("documented-operation-reaches-no-handler", "", ToString(F.reach[i].status), ReachCfg(apps, F.paths[TmplOfRaw(F, F.reach[i].raw)].tmpl, F.reach[i].method))
     : i \in {j \in DOMAIN F.reach : F.reach[j].h = 0}}
  \cup {V("reachable-handler-undocumented", "", F.probes[i].method, Shape(apps))
     : i \in {j \in DOMAIN F.probes : F.probes[j].ran # 0 /\ ~\E x \in AllRoutes(apps) : x.h = F.probes[j].ran /\ <<x.route, F.probes[j].method>> \in DocPairs(F)}}
Violations(apps, F) == HeaderV(F) \cup SchemaV(apps, F) \cup UNION {OpV(apps, F, o) : o \in OpsOf(F)} \cup PairsV(apps, F) \cup ReachV(apps, F)

\* drift notes: facts that the property text does not forbid but that a reader of the document would want to know
KwOf(n, kw) == {g \in SeqToSet(n.kws) : g.kw = kw}
ExpectedSchemes(G) == (IF "jwt" \in G THEN {"jwtAuth"} ELSE {}) \cup (IF "jwth" \in G THEN {"tokenHeader"} ELSE {}) \cup
                      (IF "jwtc" \in G THEN {"tokenCookie"} ELSE {}) \cup (IF "basic" \in G THEN {"basicAuth"} ELSE {})
Warnings(apps, F) ==
  (IF \E i \in DOMAIN F.nodes : \E r \in KwOf(F.nodes[i], "required") :
         r.kind = "array" /\ ~(SeqToSet(r.strs) \subseteq UNION {SeqToSet(p.strs) : p \in KwOf(F.nodes[i], "properties")})
   THEN {"required-name-without-property"} ELSE {})
  \cup (IF \E i \in DOMAIN F.nodes : KwOf(F.nodes[i], "nullable") # {} THEN {"keyword-nullable"} ELSE {})
  \cup (IF \E i \in DOMAIN F.probes : F.probes[i].ran = 0 THEN {"scenario-request-reached-no-handler"} ELSE {})
  \cup (IF \E i \in DOMAIN F.probes : F.probes[i].ran \notin {0, F.probes[i].h} THEN {"scenario-request-reached-another-handler"} ELSE {})
  \cup (IF \E i \in DOMAIN F.schemes : F.schemes[i].name = "tokenCookie" /\ F.schemes[i]["in"] # "cookie" THEN {"apikey-cookie-documented-elsewhere"} ELSE {})
  \cup UNION {LET m == o.op.method IN
              IF ~Registered(apps, o.tmpl, m) THEN {}
              ELSE LET x == RouteFor(apps, o.tmpl, m)  sg == SigOfH(apps, x.h) IN
                   (IF StatusesOf(o.op) # RetStatuses(sg.rt) THEN {"extra-response-status"} ELSE {})
                   \cup (IF sg.ex = "oj" /\ o.op.bodyreq THEN {"optional-body-documented-required"} ELSE {})
                   \cup (IF QueryDecl(o.op) = QueryNames(sg.ex)
                            /\ {o.op.params[i].name : i \in {j \in DOMAIN o.op.params : o.op.params[j]["in"] = "query" /\ o.op.params[j].required}} # QueryRequired(sg.ex)
                         THEN {"query-parameter-requiredness"} ELSE {})
                   \cup (IF SeqToSet(o.op.security) # ExpectedSchemes(Guards(apps, x)) THEN {"security-schemes-differ"} ELSE {})
                   \cup (IF \E i \in DOMAIN F.reach : F.reach[i].raw = o.raw /\ F.reach[i].method = m /\ F.reach[i].h \notin {0, x.h} THEN {"documented-operation-reaches-another-handler"} ELSE {})
              : o \in OpsOf(F)}

\* ------------------------------------------------------------------------------------------ layer (b): the mechanism
\* value stored at a tree node for a handler: <<"h", id, params the handler declares, an auth fang among its local fangs>>
HVal(it) == <<"h", it.h, HandlerNP(it.sig.pv), SeqToSet(it.local) \cap AuthKinds # {}>>
RECURSIVE BuildItems(_, _, _, _, _), BuildApp(_, _, _)
\* Ohkami::new: items applied in order -- register_handlers (one tree per method + the route table) / merge_another
BuildItems(apps, a, k, st, MM) ==
  IF k > Len(apps[a].items) THEN st
  ELSE LET it == apps[a].items[k] IN
       IF it.t = "route"
         THEN BuildItems(apps, a, k + 1,
                [tr |-> [m \in MM |-> IF m \in SeqToSet(it.methods) THEN Insert(st.tr[m], it.segs, 1, HVal(it)) ELSE st.tr[m]],
                 rt |-> st.rt \cup {[route |-> it.segs, method |-> m, h |-> it.h] : m \in SeqToSet(it.methods) \cap MM}], MM)
         ELSE LET c == BuildApp(apps, it.app, MM) IN
              BuildItems(apps, a, k + 1,
                [tr |-> [m \in MM |-> MergeAt(st.tr[m], it.segs, 1, c.tr[m])],
                 rt |-> st.rt \cup {[e EXCEPT !.route = it.segs \o e.route] : e \in c.rt}], MM)
\* into_router: the application's fangs (one list entry per application, here its index) on every node of its trees
BuildApp(apps, a, MM) ==
  LET st == BuildItems(apps, a, 1, [tr |-> [m \in MM |-> Root], rt |-> {}], MM) IN
  IF apps[a].fangs = <<>> THEN st ELSE [st EXCEPT !.tr = [m \in MM |-> ApplyFangs(st.tr[m], a)]]
\* the path gen_openapi_doc searches for: the route literal itself, `:name` segments included
TemplateBytes(r) == PathBytes([i \in DOMAIN r |-> IF r[i].k = "S" THEN r[i].s ELSE <<":">> \o r[i].s])
\* gen_openapi_doc: per entry of the route table, search_target on the template in the method's final tree; an operation
\* exists iff the node found has a user handler; names of the route's params go, in order, to the handler's params
ModelOps(apps, MM) ==
  LET b == BuildApp(apps, 1, MM) IN
  {LET res == Search(FinalizeRoot(b.tr[e.method]), TemplateBytes(e.route))
       hit == res.h # <<"404">>
       np  == IF hit THEN res.h[3] ELSE 0
       nms == ParamNames(e.route) IN
   [route |-> e.route, method |-> e.method, expect |-> e.h, found |-> hit, h |-> IF hit THEN res.h[2] ELSE 0,
    names |-> SubSeq(nms, 1, IF np < Len(nms) THEN np ELSE Len(nms)),
    sec |-> (hit /\ res.h[4]) \/ \E j \in DOMAIN res.fg : SeqToSet(apps[res.fg[j]].fangs) \cap AuthKinds # {},
    dev |-> IF hit /\ np < Len(nms) THEN "handler-fewer-params" ELSE "none"]
   : e \in b.rt}
=============================================================================
