------------------------------- MODULE Server -------------------------------
(***************************************************************************)
(* Composition: one connection served by an application.                   *)
(*   bytes -> Request::read -> Router::handle (search, fangs, handler,     *)
(*   complete) -> Response::send -> next request | close                   *)
(*                                                                         *)
(* The module composes the oracles of Router/RouterApp (which handler, in  *)
(* which onion of fangs), Conn (one response per request, in order, end of *)
(* the session) and the session loop of ohkami/src/session/mod.rs as a     *)
(* state machine over the events the real code emits (cfg(ohkami_verif)    *)
(* trace events of Request::read / Session::manage, interleaved with the   *)
(* enter/leave/handler events of the harness's logging fangs and handlers).*)
(* It is used for trace validation of end-to-end runs over a real socket   *)
(* (Trace_Server.tla): every event of the run must be a step of this       *)
(* machine, and the invariants hold in every state.                        *)
(***************************************************************************)
EXTENDS RouterApp

\* the connection's state between events
\*  phase: "idle"      waiting to start a read
\*         "reading"   a read is in progress (read-start seen)
\*         "read"      bytes have arrived, head maybe incomplete
\*         "parsed"    request k parsed; fangs/handler may run
\*         "handled"   Router::handle returned a response with `status`
\*         "closed"    the session is over
VARIABLES phase, k, apps, reqs, early, log, status, closing, answered
svars == <<phase, k, apps, reqs, early, log, status, closing, answered>>

SInit(a, rs, e) == /\ phase = "idle" /\ k = 0 /\ apps = a /\ reqs = rs /\ early = e /\ log = <<>> /\ status = 0
                   /\ closing = FALSE /\ answered = <<>>

\* helper operators over the current request
HandlerIds0 == {x.h : x \in AllRoutes(apps)} \cup {0}
IsPrefixOfTrace(l, h) == LET t == OnionTrace(apps, reqs[k].req, h, early) IN Len(l) =< Len(t) /\ SubSeq(t, 1, Len(l)) = l


\* ------------------------------------------------------------------ steps, one per event of the real loop
\* (guards are named so that the trace spec can tell an unexplained event from an explained one without branching)
CanReadStart == phase \in {"idle", "read"}
ReadStart == /\ CanReadStart /\ phase' = "reading"
             /\ UNCHANGED <<k, apps, reqs, early, log, status, closing, answered>>
CanReadDone(n) == phase = "reading" /\ n > 0
ReadDone(n) == /\ CanReadDone(n) /\ phase' = "read"
               /\ UNCHANGED <<k, apps, reqs, early, log, status, closing, answered>>
\* the session loop saw Ok(Some): request k+1 is parsed; `close` is what it read from the Connection header
CanParsed(close) == /\ phase = "read" /\ k < Len(reqs)
                    /\ close = reqs[k + 1].close                    \* the header of THIS request, not of an earlier one
                    /\ ~closing
Parsed(close) == /\ CanParsed(close)
                 /\ k' = k + 1 /\ phase' = "parsed" /\ log' = <<>> /\ closing' = close
                 /\ UNCHANGED <<apps, reqs, early, status, answered>>
\* fang / handler events extend the log; it must stay a prefix of an onion trace of this request
CanFangEvent(e) == phase = "parsed" /\ \E h \in HandlerIds0 : IsPrefixOfTrace(Append(log, e), h)
FangEvent(e) == /\ CanFangEvent(e) /\ log' = Append(log, e)
                /\ UNCHANGED <<phase, k, apps, reqs, early, status, closing, answered>>
\* Router::handle returned
CanHandled(st) == phase = "parsed" /\ \E h \in HandlerIds0 : log = OnionTrace(apps, reqs[k].req, h, early)      \* the onion is complete
Handled(st) == /\ CanHandled(st) /\ phase' = "handled" /\ status' = st
               /\ UNCHANGED <<k, apps, reqs, early, log, closing, answered>>
\* Response::send finished
CanSent == phase = "handled"
Sent == /\ CanSent /\ answered' = Append(answered, [k |-> k, status |-> status])
        /\ phase' = IF closing THEN "closed" ELSE "idle"
        /\ UNCHANGED <<k, apps, reqs, early, log, status, closing>>
\* Request::read refused the bytes: an error response is sent and the loop goes on
CanRejected(st) == phase = "read" /\ st >= 400
Rejected(st) == /\ CanRejected(st) /\ phase' = "handled" /\ status' = st /\ k' = k + 1 /\ log' = <<>> /\ closing' = FALSE
                /\ UNCHANGED <<apps, reqs, early, answered>>
\* the peer closed / reset: the loop is left
CanClose == phase \in {"reading", "read"}
Close == /\ CanClose /\ phase' = "closed"
         /\ UNCHANGED <<k, apps, reqs, early, log, status, closing, answered>>

\* ------------------------------------------------------------------ invariants of the composition
\* responses are sent in request order, one per parsed request
InOrder == \A j \in DOMAIN answered : answered[j].k = j
\* the handler that ran for the current request is one the routing property allows (C01) ...
HandlerOf(l) == IF \E j \in DOMAIN l : l[j][1] = "handler" THEN l[CHOOSE j \in DOMAIN l : l[j][1] = "handler"][2] ELSE 0
DispatchInv == (phase = "handled" /\ (status < 400 \/ log # <<>>)) =>
                 LET h == HandlerOf(log)
                     cut == early # 0 /\ \E j \in DOMAIN log : log[j] = <<"enter", early>> IN
                 IF cut THEN h = 0 /\ status = 403
                 ELSE h \in AllowedHandlers(apps, reqs[k].req) /\ status = (IF h = 0 THEN 404 ELSE 200)
\* ... and nothing is read after a request that asked to close
NoReadAfterClose == phase = "closed" /\ closing => k = Len(answered)
SInv == InOrder /\ DispatchInv /\ NoReadAfterClose
BrokenInv == IF ~InOrder THEN "InOrder" ELSE IF ~DispatchInv THEN "DispatchInv" ELSE IF ~NoReadAfterClose THEN "NoReadAfterClose" ELSE ""
=============================================================================
