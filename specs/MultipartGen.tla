--------------------------- MODULE MultipartGen ---------------------------
(***************************************************************************)
(* Scenario enumeration for C10 (and the bounded self-check of the spec).  *)
(* The form grows part by part (one state per form, so TLC's workers share *)
(* the enumeration); for every form the invariant `Emit` prints one        *)
(* scenario per (encoder options, target struct) of the chosen family, or, *)
(* in the MC configs, `SelfCheck` evaluates                                 *)
(*    DecodeForm(EncodeForm(f,o)) = f          (encoder against itself)    *)
(*    OhkamiDecode conforms or the deviation is a named one (b refines a). *)
(* Families                                                                *)
(*   delim   every content of length <= MaxLen over the byte classes, in   *)
(*           front of the closing and of an inner delimiter, x boundaries  *)
(*   headers every combination of the optional header variants             *)
(*   shapes  forms of <= MaxParts parts over a part catalogue (repeated    *)
(*           names, empty files, empty-file-input convention) x targets    *)
(***************************************************************************)
EXTENDS Multipart, Json

CONSTANTS FAMILY, MaxParts, MaxLen, BNDS, FULLTARGETS
VARIABLE form

\* boundary tokens by name (cfg files cannot hold tuples)
BndSeq(n) == CASE n = "b" -> <<"b">> [] n = "-b" -> <<"-", "b">> [] n = "b-" -> <<"b", "-">> [] n = "--" -> <<"-", "-">>
               [] n = "bb" -> <<"b", "b">> [] n = "-" -> <<"-">> [] n = "b-b" -> <<"b", "-", "b">> [] OTHER -> <<"b">>
Bnds == {BndSeq(n) : n \in BNDS}
Opt(b, hc, cf, tc, ce, fn) == [bnd |-> b, hcase |-> hc, ctfirst |-> cf, textct |-> tc, cte |-> ce, fin |-> fn]
AllOpts == {Opt(b, hc, cf, tc, ce, fn) : b \in Bnds, hc \in {"canon", "lower", "upper"}, cf \in BOOLEAN, tc \in BOOLEAN, ce \in BOOLEAN, fn \in BOOLEAN}
PlainOpts == {Opt(b, "canon", FALSE, FALSE, FALSE, fn) : b \in Bnds, fn \in BOOLEAN}
TwoOpts == {Opt(CHOOSE b \in Bnds : TRUE, "canon", FALSE, FALSE, FALSE, TRUE), Opt(CHOOSE b \in Bnds : TRUE, "lower", TRUE, TRUE, TRUE, FALSE)}

Small == {<<>>, <<"x">>}
Catalogue(n) == {TextPart(n, <<>>), TextPart(n, <<"x", "U8">>),
                 FilePart(n, "F1", "M1", <<"x", "HI">>), FilePart(n, "F2", "M0", <<"CR", "LF">>),
                 FilePart(n, "F2", "M2", <<>>), FilePart(n, "F0", "M1", <<>>)}
           \cup (IF FULLTARGETS THEN {FilePart(n, "F0", "M0", <<>>), FilePart(n, "F0", "M2", <<"NUL">>), TextPart(n, <<"-", "-">>)} ELSE {})

PartsAt(i) ==
  CASE FAMILY = "delim" ->
         (IF i = 1 THEN {TextPart(NameA, c) : c \in SeqsUpTo(TextAlpha, MaxLen)} \cup {FilePart(NameA, "F1", "M1", c) : c \in SeqsUpTo(FileAlpha, MaxLen)}
          ELSE {TextPart(NameB, <<"x">>)})
    [] FAMILY = "headers" ->
         (IF i = 1 THEN {TextPart(NameA, c) : c \in Small} \cup {FilePart(NameA, f, m, c) : f \in FNames, m \in MTypes, c \in Small}
          ELSE {TextPart(NameB, <<"x">>), FilePart(NameA, "F2", "M2", <<"x">>)})
    [] OTHER -> Catalogue(NameA) \cup Catalogue(NameB)

\* shapes: the two option mixes alternate with the number of file parts of the form
NFiles(f) == Len(SelectSeq(f, LAMBDA p : p.kind = "file"))
OptsFor(f) == CASE FAMILY = "delim" -> PlainOpts [] FAMILY = "headers" -> AllOpts
                [] OTHER -> {o \in TwoOpts : o.fin = (NFiles(f) % 2 = 0)}

Natural(f, n) == LET c == ShapeClass(f, n) IN
  CASE c = "missing" -> "none"
    [] c \in {"text", "emptytext", "texts", "mixed"} -> "str"
    [] c \in {"file", "emptyfile", "unnamedfile"} -> "file"
    [] c = "conv" -> "optfile"
    [] OTHER -> "vecfile"
T2(a, b, d) == [a |-> a, b |-> b, dflt |-> d]
FullTargets == {T2(a, b, FALSE) : a \in Types, b \in Types} \cup {T2(a, b, TRUE) : a \in DefaultableTypes, b \in DefaultableTypes}
Pairwise(f) == {T2(t, Natural(f, NameB), FALSE) : t \in Types} \cup {T2(Natural(f, NameA), t, FALSE) : t \in Types}
               \cup {T2(t, t, TRUE) : t \in DefaultableTypes}
TargetsFor(f) ==
  CASE FAMILY = "delim" -> {T2(Natural(f, NameA), Natural(f, NameB), FALSE)}
                           \cup (IF FULLTARGETS /\ f # <<>> THEN {T2(IF f[1].kind = "text" THEN "optstr" ELSE "vecfile", "none", FALSE),
                                                      T2(IF f[1].kind = "text" THEN "string" ELSE "optfile", "optstr", TRUE)} ELSE {})
    [] FAMILY = "headers" -> {T2(Natural(f, NameA), Natural(f, NameB), FALSE)}
    [] OTHER -> IF FULLTARGETS THEN FullTargets ELSE Pairwise(f)

Scn(f, o, t) == [fam |-> FAMILY, form |-> f, opts |-> o, target |-> t, wire |-> EncodeForm(f, o)]

GInit == form = <<>>
GNext == /\ Len(form) < MaxParts
         /\ \E p \in PartsAt(Len(form) + 1) : form' = Append(form, p)
GSpec == GInit /\ [][GNext]_form

\* targets that refuse unknown fields: one field of the form's natural target left out, or both (emitted only; the model of layer (b)
\* knows the permissive targets)
DenyTargets(f) == IF FAMILY \in {"delim", "headers"} THEN {} ELSE
                  {[a |-> Natural(f, NameA), b |-> "none", dflt |-> FALSE, deny |-> TRUE], [a |-> "none", b |-> Natural(f, NameB), dflt |-> FALSE, deny |-> TRUE],
                   [a |-> "none", b |-> "none", dflt |-> FALSE, deny |-> TRUE], [a |-> Natural(f, NameA), b |-> Natural(f, NameB), dflt |-> FALSE, deny |-> TRUE]}
Emit == \A o \in OptsFor(form) : FormOK(form, o) =>
          \A t \in TargetsFor(form) \cup DenyTargets(form) : PrintT(ToJson(Scn(form, o, t)))

\* ---- bounded self-check (MC_Multipart*.cfg): no /repo involved
RoundTripInv == \A o \in OptsFor(form) : FormOK(form, o) => RoundTrip(form, o)
RefineInv == \A o \in OptsFor(form) : FormOK(form, o) =>
               \A t \in TargetsFor(form) :
                  LET scn == Scn(form, o, t)
                      im == OhkamiDecode(scn.wire, t) IN
                  \/ Conforms(scn, im)
                  \/ Deviation(form, t) # "none"
RefineDbg == \A o \in OptsFor(form) : FormOK(form, o) =>
               \A t \in TargetsFor(form) :
                  LET scn == Scn(form, o, t)
                      im == OhkamiDecode(scn.wire, t) IN
                  \/ Conforms(scn, im)
                  \/ Deviation(form, t) # "none"
                  \/ PrintT(<<"FAIL", form, t, im>>)
\* the named deviations are real (non-vacuity): without the exemption the refinement fails
RefineStrict == \A o \in OptsFor(form) : FormOK(form, o) =>
               \A t \in TargetsFor(form) : Conforms(Scn(form, o, t), OhkamiDecode(EncodeForm(form, o), t))
=============================================================================
