---------------------------- MODULE MC_SchemaRel ----------------------------
(***************************************************************************)
(* The oracle of C16 against itself, exhaustively over the definitions of  *)
(* TIER = "mc" (one state per definition):                                 *)
(*  IdealOK        the schema a correct derive may emit satisfies          *)
(*                 SchemaMatchesSerde against the reference of serde, for  *)
(*                 every definition: the relation is satisfiable, the      *)
(*                 check never demands the impossible.                     *)
(*  MutantsCaught  every single-fault mutant of that schema (property      *)
(*                 dropped, renamed, requiredness flipped, type changed,   *)
(*                 variant branch dropped) violates the relation:          *)
(*                 the relation is not vacuous.                            *)
(*  RulesAgree     (ASSUME) the transcription of serde's rename rules and  *)
(*                 their word-splitting restatement agree on all names.    *)
(***************************************************************************)
EXTENDS SchemaRelGen

\* the variable x of SchemaRelGen holds the definition under examination
Nil == [kind |-> "nil"]
MInit == x = Nil
MNext == x = Nil /\ x' \in Defs
MSpec == MInit /\ [][MNext]_x

IdealOK == x # Nil => SchemaMatchesSerde(x, IdealSchema(x), RefSamples(x))

X_ == <<"x">>
MutProps(ps) ==        \* single-fault mutants of a property list
  IF ps = <<>> THEN {}
  ELSE {Tail(ps),
        <<[ps[1] EXCEPT !.name = @ \o X_]>> \o Tail(ps),
        <<[ps[1] EXCEPT !.required = ~@]>> \o Tail(ps),
        <<[ps[1] EXCEPT !.node = NType("boolean")]>> \o Tail(ps)}
Mutants(n) ==
  IF n.oneOf # <<>>
    THEN (IF Len(n.oneOf) > 1 THEN {[n EXCEPT !.oneOf = Tail(n.oneOf)]} ELSE {})      \* (without any branch left the node would say nothing at all)
         \cup {[n EXCEPT !.oneOf = <<[n.oneOf[1] EXCEPT !.props = m]>> \o Tail(n.oneOf)] : m \in MutProps(n.oneOf[1].props)}
    ELSE {[n EXCEPT !.props = m] : m \in MutProps(n.props)}
MutantsCaught == x # Nil => \A m \in Mutants(IdealSchema(x)) : ~SchemaMatchesSerde(x, m, RefSamples(x))

Names == {StyleName(st) : st \in FieldStyles}
VNames == {StyleName(st) : st \in {"A", "FooBar", "Nt2X", "HTTPOk"}}
ASSUME RulesAgree == /\ \A r \in Rules, n \in Names : WellSnake(n) /\ SerdeField(r, n) = WordsField(r, n)
                     /\ \A r \in Rules, n \in VNames : SerdeVariant(r, n) = WordsVariant(r, n)
=============================================================================
