SPECIFICATION TSpec
CONSTANTS
  BOUNDARY = TRUE
  RULE = "precise"
  WHAT = "c04"
CHECK_DEADLOCK FALSE
