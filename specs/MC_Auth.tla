------------------------------- MODULE MC_Auth -------------------------------
(***************************************************************************)
(* Exhaustive visit of the C12 / C13 row tables: a one-step state machine  *)
(* takes every row of AuthGen!RowsOf as a state; RowsOK checks on each that  *)
(* the implementation-shaped model stays inside the oracle except for the  *)
(* named deviations, and the sanity properties of the oracle itself.       *)
(***************************************************************************)
EXTENDS AuthGen

VARIABLE row
MInit == row = [mod |-> "init"]
MNext == row.mod = "init" /\ \E g \in Groups : \E r \in RowsOf(g) : row' = r
MSpec == MInit /\ [][MNext]_row
RowsOK == row.mod = "init" \/ RowOK(row)
=============================================================================
