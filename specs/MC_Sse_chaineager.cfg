SPECIFICATION Spec
CONSTANTS
  MaxScript = 3
  MaxSpurious = 1
  FORWARD_WAKER = TRUE
  READY_DRAINS = TRUE
  FILTER_MODE = "none"
  CHAIN_MODE = "chain-eager"
INVARIANTS TypeOK PrefixInv QueueInv DoneInv
PROPERTIES Terminates AllDelivered
CHECK_DEADLOCK FALSE
