SPECIFICATION Spec
CONSTANTS
  BOUNDARY = TRUE
  RULE = "precise"
  MaxP = 1
  MaxC = 1
  WithMount = TRUE
INVARIANTS Dispatch ScopeAndOrder
CHECK_DEADLOCK FALSE
