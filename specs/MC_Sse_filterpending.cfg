SPECIFICATION Spec
CONSTANTS
  MaxScript = 3
  MaxSpurious = 1
  FORWARD_WAKER = TRUE
  READY_DRAINS = TRUE
  FILTER_MODE = "filter-pending"
  CHAIN_MODE = "none"
INVARIANTS TypeOK PrefixInv QueueInv DoneInv
PROPERTIES Terminates
CHECK_DEADLOCK FALSE
