SPECIFICATION Spec
CONSTANTS
  BOUNDARY = TRUE
  RULE = "precise"
  NApps = 1
  MaxRoutes = 2
  MaxDepth = 2
  MaxMountDepth = 1
  SEGSTR <- SegAB
  PNAMES = {"x", "y"}
  METHODSETS <- MsGP
  APPFANGS <- AfMc
  LOCALS <- LfMc
  SIGMODE = "mc"
  SALT = 0
  DEVS = {"handler-fewer-params"}
INVARIANTS ModelPairs ModelRightOp ModelParams DevExact ModelSecurity
CHECK_DEADLOCK FALSE
