----------------------------- MODULE MC_OpenApi -----------------------------
(* Bounded exhaustive check of the document-generation MECHANISM (layer b of OpenApi: Ohkami::new ->
   register_handlers / merge_another / apply_fangs -> finalize (compression, child sort) -> gen_openapi_doc,
   which looks every entry of the route table up with search_target on the TEMPLATE path) against the
   property-level predicates of layer (a), over every application the generator of OpenApiGen builds within
   the constants (every registration order, nested mount with param prefix, named params, handlers that
   declare fewer params than their route, app / local authentication fangs).
   Known deviations of the design are NAMED (DEVS); with DEVS = {} TLC must produce the counterexample. *)
EXTENDS OpenApiGen

CONSTANT DEVS
MM == {"GET", "POST"}
Ops == ModelOps(apps, MM)
Found == {o \in Ops : o.found}
\* the documented (template, method) pairs are precisely the registered ones
ModelPairs == done => PairsMatch(apps, {<<o.route, o.method>> : o \in Found})
\* the lookup through the compressed tree ends at the operation of THIS route's handler
ModelRightOp == done => \A o \in Ops : o.found /\ o.h = o.expect
\* each operation lists the route's path parameters in order (unless a named deviation applies)
ModelParams == done => \A o \in Found : o.names = ParamNames(o.route) \/ o.dev \in DEVS
\* ... and the named deviation is exact: nothing else makes the names differ
DevExact == done => \A o \in Found : (o.names # ParamNames(o.route)) <=> (o.dev = "handler-fewer-params")
\* a security requirement iff an authentication fang guards the route
ModelSecurity == done => \A o \in Found : SecurityMatches(apps, RouteFor(apps, o.route, o.method), o.sec)
=============================================================================
