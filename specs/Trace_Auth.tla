----------------------------- MODULE Trace_Auth -----------------------------
(***************************************************************************)
(* Verdicts for C12 / C13.  Input (IOEnv.TRACE): ndjson, one line          *)
(* {"id", "scn", "obs"} per scenario row executed on the real fangs by     *)
(* harness/src/auth.rs.  Every line is judged by the operators of Auth     *)
(* (layer a) and exactly one VERDICT record is printed for it.             *)
(*                                                                         *)
(* basic: obs = [kind |-> "basic", ran, status, chal, ..]                  *)
(* jwt:   obs = [kind |-> "jwt", n, ran_same, ran_diff, err, noerr, panic] *)
(* crash: obs = [kind |-> "panic" | "abort" | "hang", where] (worker)      *)
(***************************************************************************)
EXTENDS Auth, Json, IOUtils, TLC

Rec == ndJsonDeserialize(IOEnv.TRACE)
VARIABLE l

Crashed(o) == o.kind \in {"panic", "abort", "hang"}

\* ---- C13
BasicOutcome(o) == IF Crashed(o) THEN o.kind
                   ELSE IF o.ran THEN "ran"
                   ELSE IF o.status = 401 /\ o.chal = "basic" THEN "challenge"
                   ELSE IF o.status = 401 THEN "401-without-basic-challenge"
                   ELSE IF o.status = 400 THEN "bad-request"
                   ELSE "not-run-not-401"
\* an OPTIONS request has no user handler to run (the framework's default handler answers it): there "the fang let the request through"
\* -- any answer that is not the fang's 401 / 400 -- stands for "ran"
Through(o) == ~Crashed(o) /\ ~o.ran /\ o.status \notin {400, 401}
JudgeBasic(r) ==
  LET allowed == AllowedBasic(r.scn.pairs, r.scn.hdr)
      out     == IF r.scn.method = "OPTIONS" /\ Through(r.obs) THEN "ran" ELSE BasicOutcome(r.obs) IN
  [ok  |-> out \in allowed,
   sig |-> [mod |-> "basic", hdr |-> r.scn.hdr.kind,
            cred |-> (IF CredOK(r.scn.pairs, r.scn.hdr.cred) THEN "configured" ELSE "not-configured"),
            expect |-> (IF allowed = {"ran"} THEN "ran" ELSE IF "ran" \in allowed THEN "either" ELSE "challenge"),
            dev |-> BasicDeviation(r.scn.hdr), outcome |-> out,
            where |-> (IF Crashed(r.obs) THEN r.obs.where ELSE "-")]]

\* ---- C12
JudgeJwt(r) ==
  LET cl == JwtClass(r.scn.cfg, r.scn.tok) IN
  IF Crashed(r.obs)
    THEN [ok |-> FALSE, sig |-> [mod |-> "jwt", class |-> cl, why |-> FirstWhy(r.scn.cfg, r.scn.tok),
                                 dev |-> JwtDeviation(r.scn.cfg, r.scn.tok), outcome |-> r.obs.kind]]
    ELSE [ok |-> JwtObsOK(cl, r.obs),
          sig |-> [mod |-> "jwt", class |-> cl, why |-> FirstWhy(r.scn.cfg, r.scn.tok),
                   dev |-> JwtDeviation(r.scn.cfg, r.scn.tok), outcome |-> JwtOutcome(cl, r.obs)]]

Judge(r) == IF r.scn.mod = "basic" THEN JudgeBasic(r) ELSE JudgeJwt(r)

TInit == l = 1
TNext == /\ l <= Len(Rec) /\ l' = l + 1
         /\ LET j == Judge(Rec[l]) IN PrintT(ToJson([t |-> "VERDICT", id |-> Rec[l].id, ok |-> j.ok, sig |-> j.sig]))
TSpec == TInit /\ [][TNext]_l
=============================================================================
