SPECIFICATION GSpec
CONSTANTS
  FAMILY = "shapes"
  MaxParts = 3
  MaxLen = 2
  BNDS = {"b", "-b"}
  FULLTARGETS = TRUE
INVARIANT RoundTripInv
INVARIANT RefineInv
CHECK_DEADLOCK FALSE
