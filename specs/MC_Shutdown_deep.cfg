SPECIFICATION Spec
CONSTANTS
  RECHECK = TRUE
  MaxArrivals = 3
  MaxSpurious = 3
  MaxSignals = 2
INVARIANTS TypeOK NoEarlyReturn ReturnOnlyAfterInterrupt WgExact
PROPERTIES NoAcceptAfterLeave NoLostInterrupt
CHECK_DEADLOCK FALSE
