---------------------------- MODULE RespHeaders ----------------------------
(***************************************************************************)
(* Building and serialising a response (property C03).                     *)
(*                                                                         *)
(* Layer (a): the ideal response — a status, a map from header names to    *)
(*   the sequence of value tokens set/appended last, Set-Cookie lines in   *)
(*   order, a body — and `WireOK`, what the property allows on the wire.   *)
(* Layer (b): the mechanism of ohkami/src/response/headers.rs,             *)
(*   header/map.rs and response/mod.rs: the index map (`slots` into an     *)
(*   append-only `values` vector), the custom tuple map, the running `size`*)
(*   counter from which the output buffer is reserved, `complete()` and    *)
(*   the HEAD rule of the router.  One operator per function of the code.  *)
(*                                                                         *)
(* Header values are sequences of tokens; a token has a byte length.       *)
(***************************************************************************)
EXTENDS Naturals, Sequences, FiniteSets, TLC

CONSTANTS DELETE_MODE,     \* "slot-only": IndexMap::delete clears the slot, the entry stays in `values`
                           \* "swap-remove": delete removes the entry (swap_remove + slot fix-up)
          COMPLETE_ZERO,   \* complete() adds `Content-Length: 0` to a body-less response that may carry a body
          STRIP_TE         \* complete() removes a `Transfer-Encoding` left by set_stream when the content is no stream any more

\* --------------------------------------------------------------------------------------------- vocabulary
UserStd  == {"A", "B"}                 \* two standard headers the user manipulates (e.g. Server, Vary)
Framing  == {"CT", "CL", "DT", "CC", "TE"}   \* Content-Type, Content-Length, Date, and (streams) Cache-Control, Transfer-Encoding: set by the framework
StdNames == UserStd \cup Framing
CustNames == {"X", "Y"}                \* custom header names
NLen(n) == CASE n = "A" -> 6 [] n = "B" -> 4 [] n = "CT" -> 12 [] n = "CL" -> 14 [] n = "DT" -> 4 [] n = "CC" -> 13 [] n = "TE" -> 17
             [] n = "X" -> 3 [] n = "Y" -> 8 [] n = "SC" -> 10 [] OTHER -> 5
\* value tokens and their byte lengths; "n<k>" is the decimal text of a body length
TokLen(t) == CASE t = "p" -> 1 [] t = "qq" -> 2 [] t = "L" -> 300 [] t = "date" -> 29 [] t = "u" -> 7 [] t = "t" -> 11 [] t = "x" -> 16
               [] t = "text" -> 25 [] t = "html" -> 24 [] t = "json" -> 16 [] t = "raw" -> 24 [] t = "sse" -> 17 [] t = "nocache" -> 25 [] t = "chunked" -> 7
               [] t = "n0" -> 1 [] t = "n3" -> 1 [] t = "n12" -> 2 [] t = "n300" -> 3 [] t = "n8" -> 1 [] t = "n248" -> 3 [] t = "n4088" -> 4 [] t = "n1" -> 1 [] t = "n1000" -> 4 [] t = "n5000" -> 4
               [] t = "c1" -> 5 [] t = "c2" -> 7 [] OTHER -> 1
RECURSIVE ValLen(_)
ValLen(v) == IF v = <<>> THEN 0 ELSE TokLen(Head(v)) + (IF Len(v) > 1 THEN 2 ELSE 0) + ValLen(Tail(v))
LenTok(n) == "n" \o ToString(n)
LineLen(n, v) == NLen(n) + 2 + ValLen(v) + 2
\* ops are sequences of strings only: body lengths and statuses are tokens too
LenOf(t) == CASE t = "n0" -> 0 [] t = "n1" -> 1 [] t = "n3" -> 3 [] t = "n12" -> 12 [] t = "n300" -> 300
              [] t = "n1000" -> 1000 [] t = "n5000" -> 5000
              \* a one-event stream of these lengths makes a chunk of exactly 16, 256 and 4096 bytes (its hexadecimal size gains a digit)
              [] t = "n8" -> 8 [] t = "n248" -> 248 [] t = "n4088" -> 4088 [] OTHER -> 0
\* "c<code>": any status code of the framework's enum (1xx and 304 are not generated)
StatusCodes == {200, 201, 202, 203, 204, 205, 206, 207, 208, 226, 300, 301, 302, 303, 307, 308} \cup (400..418 \ {402}) \cup {421, 422, 423, 424, 426, 428, 429, 431, 451}
               \cup (500..508) \cup {510, 511}
StatusOf(t) == IF \E c \in StatusCodes : t = "c" \o ToString(c) THEN CHOOSE c \in StatusCodes : t = "c" \o ToString(c) ELSE
               CASE t = "s200" -> 200 [] t = "s204" -> 204 [] t = "s404" -> 404 [] t = "s304" -> 304 [] t = "s500" -> 500 [] t = "s201" -> 201
                   [] t = "s205" -> 205 [] t = "s206" -> 206 [] t = "s301" -> 301 [] t = "s400" -> 400 [] OTHER -> 200

BodyKinds == {"text", "html", "json", "raw", "stream"}     \* stream: one server-sent event of `len` bytes, chunked
StreamBytes(len) == len + 8                                   \* "data: " + message + LF LF
MayCarryBody(status) == status \notin {204, 304, 100, 101}

\* --------------------------------------------------------------------------------------------- operations
\* op = <<kind, ...>> as sequences of strings / ints
\*   <<"set", n, t>> <<"app", n, t>> <<"rem", n>>          standard header n \in UserStd
\*   <<"cset", n, t>> <<"capp", n, t>> <<"crem", n>>       custom header
\*   <<"cookie", t>>                                        Set-Cookie
\*   <<"body", kind, lentok>>  <<"drop">>                      set_text / set_html / set_json / set_payload; drop_content
\*   <<"status", "s204">>
\*   <<"rebuild">>                                           the header set taken apart and put together again through the public bulk
\*                                                           constructor: headers := ResponseHeaders::from_iter(headers.into_iter() minus Set-Cookie)
\*                                                           (every pair is a `set` on a fresh header set; the cookies are left behind)

\* --------------------------------------------------------------------------------------------- layer (a): ideal
IdealInitFor(names) ==
             [status |-> 200,
              hdr    |-> [n \in names \cup {"CT"} |-> <<>>],   \* <<>> = not live
              cookies |-> <<>>,
              body   |-> [present |-> FALSE, len |-> 0, stream |-> FALSE]]
IdealInit == IdealInitFor(UserStd \cup CustNames)

IdealApply(s, op) ==
  LET k == op[1] IN
  CASE k \in {"set", "cset"}  -> [s EXCEPT !.hdr[op[2]] = <<op[3]>>]
    [] k \in {"app", "capp"}  -> [s EXCEPT !.hdr[op[2]] = Append(@, op[3])]
    [] k \in {"rem", "crem"}  -> [s EXCEPT !.hdr[op[2]] = <<>>]
    [] k = "cookie"           -> [s EXCEPT !.cookies = Append(@, op[2])]
    [] k = "body"             -> [s EXCEPT !.hdr["CT"] = <<IF op[2] = "stream" THEN "sse" ELSE op[2]>>,
                                           !.body = [present |-> TRUE, len |-> LenOf(op[3]), stream |-> op[2] = "stream"]]
    [] k = "drop"             -> [s EXCEPT !.hdr["CT"] = <<>>, !.body = [present |-> FALSE, len |-> 0, stream |-> FALSE]]
    [] k = "status"           -> [s EXCEPT !.status = StatusOf(op[2])]
    [] k = "rebuild"          -> [s EXCEPT !.cookies = <<>>]
    [] OTHER -> s

\* a header block as observed: sequence of [n |-> name, v |-> value tokens]
Count(lines, n) == Cardinality({i \in DOMAIN lines : lines[i].n = n})
ValueOf(lines, n) == lines[CHOOSE i \in DOMAIN lines : lines[i].n = n].v
CookieLines(lines) == LET idx == {i \in DOMAIN lines : lines[i].n = "SC"}
                          F[i \in 0..Len(lines)] == IF i = 0 THEN <<>> ELSE IF i \in idx THEN Append(F[i-1], lines[i].v[1]) ELSE F[i-1]
                      IN F[Len(lines)]

\* every live header exactly once with its latest value, removed ones absent, nothing twice but Set-Cookie
\* (a value with a line break in it, token "x", cannot be sent as it is: whatever the framework makes of it -- SP in its place as RFC 9110
\*  5.5 suggests, an escape, no header at all -- the header line occurs at most once and nothing of the value becomes a line of its own:
\*  the name the value tries to inject, token INJ, is a header nobody set)
HasBreak(v) == \E i \in DOMAIN v : v[i] = "x"
HeadersOK(s, lines) ==
  /\ \A n \in DOMAIN s.hdr : IF s.hdr[n] = <<>> THEN Count(lines, n) = 0
                             ELSE IF HasBreak(s.hdr[n]) THEN Count(lines, n) =< 1
                             ELSE Count(lines, n) = 1 /\ ValueOf(lines, n) = s.hdr[n]
  /\ Count(lines, "INJ") = 0
  /\ \A i \in DOMAIN lines : lines[i].n # "SC" => Count(lines, lines[i].n) = 1
  /\ CookieLines(lines) = s.cookies

\* what the property allows on the wire for the ideal response s answering `method`
\* w = [status, lines, blen, framing]   framing \in {"cl", "chunked", "close", "none", "cl-nobody", "chunked-nobody"}
WireOK(s, method, w) ==
  /\ w.wf                                            \* parses as an HTTP/1.1 message
  /\ w.trailing = 0                                  \* nothing after the declared end
  /\ w.status = s.status
  /\ HeadersOK(s, w.lines)
  /\ IF s.status = 204 THEN w.blen = 0 /\ Count(w.lines, "CL") = 0
     ELSE IF ~MayCarryBody(s.status) THEN w.blen = 0
     ELSE IF method = "HEAD" THEN w.blen = 0
     ELSE /\ w.framing \in {"cl", "chunked"}         \* the client can find the end without waiting for close
          \* (a stream: the chunked coding must be well-formed -- w.wf -- and carry at least the message; how an event is framed inside it,
          \*  `data:` with or without the optional space, is C17's business, not a matter of response well-formedness)
          /\ IF s.body.present /\ s.body.stream THEN w.blen >= s.body.len
             ELSE w.blen = (IF ~s.body.present THEN 0 ELSE s.body.len)
          /\ (s.body.present /\ s.body.stream => w.framing = "chunked")
          /\ Count(w.lines, "TE") = (IF w.framing = "chunked" THEN 1 ELSE 0)      \* no stale Transfer-Encoding in front of a plain body
          /\ (w.framing = "cl" => ValueOf(w.lines, "CL") = <<LenTok(w.blen)>>)

\* classification of a wire that is not OK (signature for known findings)
WireClass(s, method, w) ==
  IF ~w.wf THEN "malformed"
  ELSE IF w.trailing # 0 THEN "bytes-after-declared-end"
  ELSE IF w.status # s.status THEN "status"
  ELSE IF Count(w.lines, "INJ") > 0 THEN "line-break-in-a-value-becomes-a-header-line"
  ELSE IF \E i \in DOMAIN w.lines : w.lines[i].n # "SC" /\ Count(w.lines, w.lines[i].n) > 1 THEN "duplicate-header-line"
  ELSE IF \E n \in DOMAIN s.hdr : s.hdr[n] = <<>> /\ Count(w.lines, n) > 0 THEN "removed-header-on-wire"
  ELSE IF \E n \in DOMAIN s.hdr : s.hdr[n] # <<>> /\ ~HasBreak(s.hdr[n]) /\ Count(w.lines, n) = 0 THEN "live-header-missing"
  ELSE IF ~HeadersOK(s, w.lines) THEN "header-value"
  ELSE IF s.status = 204 THEN "204-framing"
  ELSE IF method = "HEAD" \/ ~MayCarryBody(s.status) THEN "body-on-bodyless"
  ELSE IF w.framing \notin {"cl", "chunked"} THEN "no-declared-length"
  ELSE IF Count(w.lines, "TE") # (IF w.framing = "chunked" THEN 1 ELSE 0) THEN "stale-transfer-encoding"
  ELSE "length-mismatch"

\* --------------------------------------------------------------------------------------------- layer (b): mechanism
\* slots: name -> position in values (0 = NULL); values: <<[k, v]>>; custom: <<[k, v]>>; size: bytes of the block
ImplInit ==
  LET v0 == <<[k |-> "DT", v |-> <<"date">>], [k |-> "CL", v |-> <<"n0">>]>> IN
  [status |-> 200,
   slots  |-> [n \in StdNames |-> CASE n = "DT" -> 1 [] n = "CL" -> 2 [] OTHER -> 0],
   values |-> v0,
   custom |-> <<>>,
   cookies |-> <<>>,
   size   |-> 2 + LineLen("DT", <<"date">>) + LineLen("CL", <<"n0">>),
   content |-> [present |-> FALSE, len |-> 0, stream |-> FALSE]]

\* Headers::insert
Insert(s, n, v) ==
  IF s.slots[n] = 0
    THEN [s EXCEPT !.size = @ + LineLen(n, v), !.values = Append(@, [k |-> n, v |-> v]), !.slots[n] = Len(s.values) + 1]
    ELSE LET p == s.slots[n] IN [s EXCEPT !.size = (@ - ValLen(s.values[p].v)) + ValLen(v), !.values[p].v = v]
\* Headers::append
AppendStd(s, n, t) ==
  IF s.slots[n] = 0 THEN Insert(s, n, <<t>>)
  ELSE LET p == s.slots[n] IN [s EXCEPT !.size = @ + 2 + TokLen(t), !.values[p].v = Append(@, t)]
\* IndexMap::delete as called from Headers::remove
RemoveAt(seq, p) == [i \in 1..(Len(seq) - 1) |-> IF i < p THEN seq[i] ELSE seq[i + 1]]
Remove(s, n) ==
  IF s.slots[n] = 0 THEN s
  ELSE LET p == s.slots[n]
           s1 == [s EXCEPT !.size = @ - LineLen(n, s.values[p].v)] IN
       IF DELETE_MODE = "slot-only" THEN [s1 EXCEPT !.slots[n] = 0]
       ELSE \* swap_remove: the last entry moves into the hole and its slot is updated
            LET last == Len(s.values) IN
            IF p = last THEN [s1 EXCEPT !.slots[n] = 0, !.values = SubSeq(@, 1, last - 1)]
            ELSE LET moved == s.values[last] IN
                 [s1 EXCEPT !.slots = [@ EXCEPT ![n] = 0, ![moved.k] = p],
                            !.values = [SubSeq(@, 1, last - 1) EXCEPT ![p] = moved]]
\* TupleMap insert / append / remove
CIndex(s, n) == IF \E i \in DOMAIN s.custom : s.custom[i].k = n THEN CHOOSE i \in DOMAIN s.custom : s.custom[i].k = n ELSE 0
CInsert(s, n, v) == LET i == CIndex(s, n) IN
  IF i = 0 THEN [s EXCEPT !.custom = Append(@, [k |-> n, v |-> v]), !.size = @ + LineLen(n, v)]
  ELSE [s EXCEPT !.size = (@ - ValLen(s.custom[i].v)) + ValLen(v), !.custom[i].v = v]
CAppend(s, n, t) == LET i == CIndex(s, n) IN
  IF i = 0 THEN CInsert(s, n, <<t>>)
  ELSE [s EXCEPT !.size = @ + 2 + TokLen(t), !.custom[i].v = Append(@, t)]
CRemove(s, n) == LET i == CIndex(s, n) IN
  IF i = 0 THEN s ELSE [s EXCEPT !.size = @ - LineLen(n, s.custom[i].v), !.custom = RemoveAt(@, i)]

\* Headers::from_iter over Headers::into_iter: a fresh Headers::new() (Date and Content-Length: 0 seeded), every live standard entry
\* inserted in the order of the value vector, then every custom entry
RECURSIVE FoldIns(_, _), FoldCIns(_, _)
FoldIns(s, es)  == IF es = <<>> THEN s ELSE FoldIns(Insert(s, Head(es).k, Head(es).v), Tail(es))
FoldCIns(s, es) == IF es = <<>> THEN s ELSE FoldCIns(CInsert(s, Head(es).k, Head(es).v), Tail(es))
Rebuild(s) == LET fresh == [ImplInit EXCEPT !.status = s.status, !.content = s.content]
                  live  == SelectSeq(s.values, LAMBDA e : s.slots[e.k] # 0)
              IN FoldCIns(FoldIns(fresh, live), s.custom)

ImplApply(s, op) ==
  LET k == op[1] IN
  CASE k = "set"    -> Insert(s, op[2], <<op[3]>>)
    [] k = "app"    -> AppendStd(s, op[2], op[3])
    [] k = "rem"    -> Remove(s, op[2])
    [] k = "cset"   -> CInsert(s, op[2], <<op[3]>>)
    [] k = "capp"   -> CAppend(s, op[2], op[3])
    [] k = "crem"   -> CRemove(s, op[2])
    [] k = "cookie" -> [s EXCEPT !.cookies = Append(@, op[2]), !.size = @ + 12 + TokLen(op[2]) + 2]
    [] k = "body"   -> IF op[2] = "stream"
                         THEN \* set_stream_raw: ContentLength(None), ContentType, CacheControl, TransferEncoding
                              [Insert(Insert(Insert(Remove(s, "CL"), "CT", <<"sse">>), "CC", <<"nocache">>), "TE", <<"chunked">>)
                                 EXCEPT !.content = [present |-> TRUE, len |-> LenOf(op[3]), stream |-> TRUE]]
                         ELSE [Insert(Insert(s, "CT", <<op[2]>>), "CL", <<op[3]>>) EXCEPT !.content = [present |-> TRUE, len |-> LenOf(op[3]), stream |-> FALSE]]
    [] k = "drop"   -> [Remove(Remove(s, "CT"), "CL") EXCEPT !.content = [present |-> FALSE, len |-> 0, stream |-> FALSE]]
    [] k = "status" -> [s EXCEPT !.status = StatusOf(op[2])]
    [] k = "rebuild" -> Rebuild(s)
    [] OTHER -> s

\* Router::handle (HEAD: content := None, headers kept) then Response::complete
ImplFinish(s, method) ==
  LET none == [present |-> FALSE, len |-> 0, stream |-> FALSE]
      s0 == IF STRIP_TE /\ ~s.content.stream THEN Remove(s, "TE") ELSE s
      s1 == IF method = "HEAD" THEN [s0 EXCEPT !.content = none] ELSE s0
      s2 == IF s1.status = 204 THEN [Remove(s1, "CL") EXCEPT !.content = none]
            ELSE IF s1.content.stream THEN Remove(s1, "CL") ELSE s1
      s3 == IF COMPLETE_ZERO /\ ~s2.content.present /\ s2.slots["CL"] = 0 /\ MayCarryBody(s2.status)
              THEN Insert(s2, "CL", <<"n0">>) ELSE s2
  IN s3

\* IndexMap::iter: entries whose key has a non-NULL slot (what write_unchecked_to walks)
ImplLines(s) ==
  LET live == SelectSeq(s.values, LAMBDA e : s.slots[e.k] # 0)
      std  == [i \in DOMAIN live |-> [n |-> live[i].k, v |-> live[i].v]]
      cus  == [i \in DOMAIN s.custom |-> [n |-> s.custom[i].k, v |-> s.custom[i].v]]
      cks  == [i \in DOMAIN s.cookies |-> [n |-> "SC", v |-> <<s.cookies[i]>>]]
  IN std \o cus \o cks
RECURSIVE SumLines(_)
SumLines(ls) == IF ls = <<>> THEN 0 ELSE (IF Head(ls).n = "SC" THEN 12 + TokLen(Head(ls).v[1]) + 2 ELSE LineLen(Head(ls).n, Head(ls).v)) + SumLines(Tail(ls))
ImplBlockBytes(s) == SumLines(ImplLines(s)) + 2
ImplWire(s, method) ==
  LET f == ImplFinish(s, method)
      ls == ImplLines(f)
      hasCL == \E i \in DOMAIN ls : ls[i].n = "CL" IN
  [wf |-> TRUE, trailing |-> 0, status |-> f.status, lines |-> ls,
   blen |-> IF ~f.content.present THEN 0 ELSE IF f.content.stream THEN StreamBytes(f.content.len) ELSE f.content.len,
   framing |-> IF f.content.present /\ f.content.stream THEN "chunked" ELSE IF hasCL THEN "cl" ELSE "close"]
=============================================================================
