--------------------------------- MODULE Sse ---------------------------------
(***************************************************************************)
(* Server-sent event streams (property C17).                               *)
(*                                                                         *)
(* Code modelled:                                                          *)
(*   ohkami_lib/src/stream.rs   QueueStream::{setup, poll_queuing_future,  *)
(*                              poll_next}, Queue::push                    *)
(*   ohkami/src/sse/mod.rs      DataStream::new, handle::Stream::send      *)
(*   ohkami/src/response/mod.rs Response::send, arm Content::Stream        *)
(*                                                                         *)
(* Part 1 (scheduling).  The producer future is a script over              *)
(*   "P" push the next message through the queue handle                    *)
(*   "Y" return Pending after storing the waker of the polling context;    *)
(*       the awaited event fires later (Fire) and wakes that waker         *)
(*   end of script = the future returns Ready                              *)
(* The consumer is the loop `while let Some(chunk) = stream.next().await`  *)
(* of Response::send; one action per step of the code.  The queue handle   *)
(* does not wake anybody when it pushes: the only wake-ups of the task are *)
(* those the producer's awaited events deliver to the waker that           *)
(* poll_next forwarded to it (FORWARD_WAKER) and spurious ones.            *)
(*                                                                         *)
(* Part 2 (framing).  Texts are sequences of atoms (strings): the five     *)
(* structural atoms <LF> <CR> <SP> <COLON> <BOM> and text runs "=..."      *)
(* ("=data", "=event", "=id", "=retry" are the runs that spell the field   *)
(* names).  ParseES is the WHATWG event-stream interpretation, Frame what  *)
(* the encoder emits for one message, Expected what the property wants.    *)
(***************************************************************************)
EXTENDS Naturals, Sequences, TLC

-----------------------------------------------------------------------------
(* Part 2: framing                                                         *)

LF    == "<LF>"
CR    == "<CR>"
SP    == "<SP>"
COLON == "<COLON>"
BOM   == "<BOM>"
DATAW == "=data"
DigitAtoms == {"=n", "=n2"}       \* text runs made of ASCII digits only

\* message tokens of the scenarios -> atoms
Expand(t) == CASE t = "LF" -> <<LF>> [] t = "CR" -> <<CR>> [] t = "CRLF" -> <<CR, LF>>
               [] t = "SP" -> <<SP>> [] t = "COLON" -> <<COLON>> [] t = "BOM" -> <<BOM>>
               [] t = "DATA" -> <<DATAW, COLON>> [] t = "EV" -> <<"=event", COLON>>
               [] t = "ID" -> <<"=id", COLON>> [] t = "RETRY" -> <<"=retry", COLON>>
               [] OTHER -> <<"=" \o t>>

RECURSIVE FlatFrom(_, _)
FlatFrom(ss, i) == IF i > Len(ss) THEN <<>> ELSE ss[i] \o FlatFrom(ss, i + 1)
Flat(ss) == FlatFrom(ss, 1)
Atoms(m) == Flat([i \in 1..Len(m) |-> Expand(m[i])])

SseFront(s) == SubSeq(s, 1, Len(s) - 1)

\* split like str::split: n separators give n+1 pieces.  mode "lf": separator LF only (what the encoder does);
\* mode "any": separators CR LF, CR, LF (what an event-stream parser does)
RECURSIVE SplitFrom(_, _, _, _, _)
SplitFrom(a, i, start, acc, mode) ==      \* i: position read, start: first position of the current piece
  IF i > Len(a) THEN Append(acc, SubSeq(a, start, Len(a)))
  ELSE IF a[i] = LF THEN SplitFrom(a, i + 1, i + 1, Append(acc, SubSeq(a, start, i - 1)), mode)
  ELSE IF mode = "any" /\ a[i] = CR
         THEN LET j == IF i < Len(a) /\ a[i + 1] = LF THEN i + 2 ELSE i + 1
              IN SplitFrom(a, j, j, Append(acc, SubSeq(a, start, i - 1)), mode)
  ELSE SplitFrom(a, i + 1, start, acc, mode)
Split(a, mode) == SplitFrom(a, 1, 1, <<>>, mode)

RECURSIVE JoinFrom(_, _, _)
JoinFrom(ls, i, sep) == IF i > Len(ls) THEN <<>>
                        ELSE IF i = Len(ls) THEN ls[i] ELSE ls[i] \o <<sep>> \o JoinFrom(ls, i + 1, sep)
Join(ls, sep) == JoinFrom(ls, 1, sep)

\* line breaks normalised to LF, "as the format prescribes"
Normalize(a) == Join(Split(a, "any"), LF)

\* a CR that is not the first half of CR LF
HasLoneCR(a) == \E i \in 1..Len(a) : a[i] = CR /\ (i = Len(a) \/ a[i + 1] # LF)
HasCR(a) == \E i \in 1..Len(a) : a[i] = CR

FrameLines(ls) == Flat([i \in 1..Len(ls) |-> <<DATAW, COLON, SP>> \o ls[i] \o <<LF>>]) \o <<LF>>
\* Response::send as it is (since the repair of the CR framing): CRLF and CR are replaced by LF, then `for line in chunk.split('\n')`
\* (before the repair: FrameLines(Split(a, "lf")), which lets a lone CR through)
FrameImpl(a) == FrameLines(Split(Normalize(a), "lf"))
FrameOriginal(a) == FrameLines(Split(a, "lf"))
\* the framing the property asks for: every line break of the message ends a `data:` line
FrameWanted(a) == FrameLines(Split(a, "any"))

\* ---- the WHATWG event-stream interpretation (HTML, 9.2.5 / 9.2.6)
\* parser state: data buffer, event type buffer, last event id, reconnection times set, dispatched events,
\* number of lines that are neither blank nor `data` lines (comments, other fields, unknown names)
ES0 == [data |-> <<>>, type |-> <<>>, id |-> <<>>, retry |-> <<>>, out |-> <<>>, other |-> 0]

FirstColon(line) == IF \E i \in 1..Len(line) : line[i] = COLON
                      THEN CHOOSE i \in 1..Len(line) : line[i] = COLON /\ \A j \in 1..(i - 1) : line[j] # COLON
                      ELSE 0
Dispatch(st) == IF st.data = <<>> THEN [st EXCEPT !.type = <<>>]
                ELSE [st EXCEPT !.out = Append(@, [data |-> SseFront(st.data), type |-> st.type, id |-> st.id]),
                                !.data = <<>>, !.type = <<>>]
Field(st, name, value) ==
  IF name = <<DATAW>> THEN [st EXCEPT !.data = @ \o value \o <<LF>>]
  ELSE IF name = <<"=event">> THEN [st EXCEPT !.type = value, !.other = @ + 1]
  ELSE IF name = <<"=id">> THEN [st EXCEPT !.id = value, !.other = @ + 1]
  ELSE IF name = <<"=retry">> /\ value # <<>> /\ \A i \in 1..Len(value) : value[i] \in DigitAtoms
         THEN [st EXCEPT !.retry = Append(@, value), !.other = @ + 1]
  ELSE [st EXCEPT !.other = @ + 1]
ESLine(st, line) ==
  IF line = <<>> THEN Dispatch(st)
  ELSE IF line[1] = COLON THEN [st EXCEPT !.other = @ + 1]                 \* comment
  ELSE LET c == FirstColon(line) IN
       IF c = 0 THEN Field(st, line, <<>>)
       ELSE LET v == SubSeq(line, c + 1, Len(line)) IN
            Field(st, SubSeq(line, 1, c - 1), IF v # <<>> /\ v[1] = SP THEN Tail(v) ELSE v)
RECURSIVE ESFold(_, _, _)
ESFold(st, ls, i) == IF i > Len(ls) THEN st ELSE ESFold(ESLine(st, ls[i]), ls, i + 1)
\* one leading BOM is ignored; an unterminated last line and a pending (undispatched) event are discarded
ParseES(w) == LET w1 == IF w # <<>> /\ w[1] = BOM THEN Tail(w) ELSE w
                  ls == SseFront(Split(w1, "any"))
              IN ESFold(ES0, ls, 1)

\* what the client must get for message m (token sequence): exactly one event, default type, no id
Expected(m) == [data |-> Normalize(Atoms(m)), type |-> <<>>, id |-> <<>>]
ExpectedAll(ms) == [i \in 1..Len(ms) |-> Expected(ms[i])]
Delivers(w, ms) == LET r == ParseES(w) IN r.out = ExpectedAll(ms) /\ r.retry = <<>>
WireOf(F(_), ms) == Flat([i \in 1..Len(ms) |-> F(Atoms(ms[i]))])

\* classification of a wrong decode (for signatures)
Outcome(w, ms) ==
  LET r == ParseES(w) e == ExpectedAll(ms) IN
  IF r.out = e /\ r.retry = <<>> THEN "ok"
  ELSE IF r.retry # <<>> \/ \E i \in 1..Len(r.out) : r.out[i].type # <<>> \/ r.out[i].id # <<>> THEN "field-injected"
  ELSE IF Len(r.out) > Len(e) THEN "extra-event"
  ELSE IF Len(r.out) < Len(e) THEN "event-lost"
  ELSE "data-altered"
CrClass(ms) == IF \E i \in 1..Len(ms) : HasLoneCR(Atoms(ms[i])) THEN "lone-cr"
               ELSE IF \E i \in 1..Len(ms) : HasCR(Atoms(ms[i])) THEN "crlf-only" ELSE "no-cr"

-----------------------------------------------------------------------------
(* Part 1: scheduling                                                      *)

CONSTANTS MaxScript,      \* scripts of up to this many steps
          MaxSpurious,    \* wake-ups of the task nobody asked for
          FORWARD_WAKER,  \* poll_next polls the producer with the task's own context (TRUE in the code)
          READY_DRAINS,   \* after the producer completed, the queue is still drained (TRUE in the code)
          CHAIN_MODE,     \* "none": no script ends with "T".  "chain": a script may end with "T" -- the handler's stream is followed, through the
                          \* adapter StreamExt::chain, by a second stream of one closing message, which is polled only when the first one is exhausted
                          \* (the code).  "chain-eager": the adapter takes a first stream that is merely not ready for an exhausted one (a deviation:
                          \* the closing message overtakes what the producer still has to say, and the stream ends early)
          FILTER_MODE     \* "none": the handler's stream goes to the response as it is;  "filter": through the adapter StreamExt::filter,
                          \* the producer also pushes items the predicate rejects (0 in the queue), and a rejected item makes the adapter
                          \* poll its inner stream again at once (the code);  "filter-pending": the adapter returns Pending instead,
                          \* without arranging a wake-up (a deviation: the stream may never end)

VARIABLES
  script,     \* the producer's program
  ip,         \* its instruction pointer
  queue,      \* VecDeque shared by the stream and the handle
  pushed,     \* messages pushed so far (indices 1, 2, ..)
  delivered,  \* messages written to the connection so far
  prod,       \* "running" (queuing_state = Some) | "done" (None)
  waiting,    \* the producer is suspended at a Y
  fired,      \* the event it waits for has happened
  pcC,        \* the send task: start, pollprod, prodrun, popP, popR, idle, done
  woken,      \* a wake-up of the send task is pending
  spurious,
  finished    \* the terminating chunk has been written

vars == <<script, ip, queue, pushed, delivered, prod, waiting, fired, pcC, woken, spurious, finished>>

NPush(sc) == Len(SelectSeq(sc, LAMBDA s : s \in {"P", "T"}))          \* messages of a script: its pushes, and the chained closing message
PlainScripts(m) == UNION {[1..n -> {"P", "Y"}] : n \in 0..m}
Scripts == PlainScripts(MaxScript) \cup (IF CHAIN_MODE = "none" THEN {} ELSE {Append(s, "T") : s \in PlainScripts(MaxScript - 1)})
HasTail == IF script = <<>> THEN FALSE ELSE script[Len(script)] = "T"

InitWith(sc) == /\ script = sc /\ ip = 1 /\ queue = <<>> /\ pushed = <<>> /\ delivered = <<>>
                /\ prod = "running" /\ waiting = FALSE /\ fired = FALSE
                /\ pcC = "start" /\ woken = FALSE /\ spurious = 0 /\ finished = FALSE
Init == \E sc \in Scripts : InitWith(sc)

\* ---- guards (also used by the trace spec)
CanCHead    == pcC = "start"
CanPStill   == pcC = "pollprod" /\ prod = "running" /\ waiting /\ ~fired
CanPCont    == pcC = "pollprod" /\ prod = "running" /\ (~waiting \/ fired)
CanPPush    == pcC = "prodrun" /\ ip <= Len(script) /\ script[ip] = "P"
CanPYield   == pcC = "prodrun" /\ ip <= Len(script) /\ script[ip] = "Y"
CanPEnd     == pcC = "prodrun" /\ (ip > Len(script) \/ (HasTail /\ ip = Len(script)))
CanPDecoy   == pcC = "prodrun" /\ FILTER_MODE # "none" /\ (IF queue = <<>> THEN TRUE ELSE queue[Len(queue)] # 0)   \* (never two rejected items in a row)
CanCDeliver == (IF queue = <<>> THEN FALSE ELSE Head(queue) # 0) /\ (pcC = "popP" \/ (pcC = "popR" /\ READY_DRAINS))
CanCDiscard == (IF queue = <<>> THEN FALSE ELSE Head(queue) = 0) /\ (pcC = "popP" \/ (pcC = "popR" /\ READY_DRAINS))
CanCSuspend == pcC = "popP" /\ queue = <<>> /\ ~(CHAIN_MODE = "chain-eager" /\ HasTail)
CanCEager   == pcC = "popP" /\ queue = <<>> /\ CHAIN_MODE = "chain-eager" /\ HasTail
CanCFinish  == pcC = "popR" /\ (queue = <<>> \/ ~READY_DRAINS)
CanCResume  == pcC = "idle" /\ woken
CanFire     == prod = "running" /\ waiting /\ ~fired
CanSpurious == pcC \notin {"done"} /\ ~woken /\ spurious < MaxSpurious

\* ---- Response::send
CHead == /\ CanCHead                           \* status line + headers written and flushed; first stream.next()
         /\ pcC' = "pollprod"
         /\ UNCHANGED <<script, ip, queue, pushed, delivered, prod, waiting, fired, woken, spurious, finished>>

\* ---- QueueStream::poll_next: setup(); poll_queuing_future(cx)
PStill == /\ CanPStill                         \* the producer is polled, its event has not happened: Pending again
          /\ pcC' = "popP"
          /\ UNCHANGED <<script, ip, queue, pushed, delivered, prod, waiting, fired, woken, spurious, finished>>
PCont == /\ CanPCont                           \* the producer is polled and runs on
         /\ waiting' = FALSE /\ fired' = FALSE /\ pcC' = "prodrun"
         /\ UNCHANGED <<script, ip, queue, pushed, delivered, prod, woken, spurious, finished>>
PPush == /\ CanPPush                           \* handle.send(m): queue.push_back, nobody is woken
         /\ queue' = Append(queue, Len(pushed) + 1) /\ pushed' = Append(pushed, Len(pushed) + 1) /\ ip' = ip + 1
         /\ UNCHANGED <<script, delivered, prod, waiting, fired, pcC, woken, spurious, finished>>
PDecoy == /\ CanPDecoy                           \* the producer pushes an item the filter's predicate will reject
          /\ queue' = Append(queue, 0)
          /\ UNCHANGED <<script, ip, pushed, delivered, prod, waiting, fired, pcC, woken, spurious, finished>>
PYield == /\ CanPYield                         \* .await of something not ready: waker stored, Pending
          /\ ip' = ip + 1 /\ waiting' = TRUE /\ fired' = FALSE /\ pcC' = "popP"
          /\ UNCHANGED <<script, queue, pushed, delivered, prod, woken, spurious, finished>>
PEnd == /\ CanPEnd                             \* the future returns Ready: queuing_state = None
        /\ prod' = "done" /\ pcC' = "popR" /\ ip' = Len(script) + 1
        \* (a chained closing message comes when the first stream is exhausted, i.e. behind whatever is still queued: it is one more message)
        /\ IF HasTail THEN queue' = Append(queue, Len(pushed) + 1) /\ pushed' = Append(pushed, Len(pushed) + 1)
                      ELSE UNCHANGED <<queue, pushed>>
        /\ UNCHANGED <<script, delivered, waiting, fired, woken, spurious, finished>>

\* ---- poll_next: queue.pop_front() under Ready / Pending, and what the send loop does with the result
CDeliver == /\ CanCDeliver                     \* Some(value): chunk framed, written, flushed; stream.next() again
            /\ delivered' = Append(delivered, Head(queue)) /\ queue' = Tail(queue)
            /\ pcC' = IF prod = "done" THEN "popR" ELSE "pollprod"
            /\ UNCHANGED <<script, ip, pushed, prod, waiting, fired, woken, spurious, finished>>
CDiscard == /\ CanCDiscard                    \* Filter::poll_next: the predicate rejects the item; the inner stream is polled again
            /\ queue' = Tail(queue)
            /\ pcC' = IF FILTER_MODE = "filter-pending" THEN "idle" ELSE IF prod = "done" THEN "popR" ELSE "pollprod"
            /\ UNCHANGED <<script, ip, pushed, delivered, prod, waiting, fired, woken, spurious, finished>>
CEager == /\ CanCEager                        \* the deviation: Pending taken for exhaustion -- the closing message goes out, then the stream ends
          /\ delivered' = Append(delivered, NPush(script)) /\ finished' = TRUE /\ pcC' = "done"
          /\ UNCHANGED <<script, ip, queue, pushed, prod, waiting, fired, woken, spurious>>
CSuspend == /\ CanCSuspend                     \* Pending and nothing queued: the task is suspended
            /\ pcC' = "idle"
            /\ UNCHANGED <<script, ip, queue, pushed, delivered, prod, waiting, fired, woken, spurious, finished>>
CFinish == /\ CanCFinish                       \* Ready(None): `0 CRLF CRLF` written, send returns
           /\ finished' = TRUE /\ pcC' = "done"
           /\ UNCHANGED <<script, ip, queue, pushed, delivered, prod, waiting, fired, woken, spurious>>
CResume == /\ CanCResume                       \* the runtime polls the task again
           /\ woken' = FALSE /\ pcC' = "pollprod"
           /\ UNCHANGED <<script, ip, queue, pushed, delivered, prod, waiting, fired, spurious, finished>>

\* ---- environment
Fire == /\ CanFire                             \* the awaited event happens and wakes the stored waker
        /\ fired' = TRUE /\ woken' = (woken \/ FORWARD_WAKER)
        /\ UNCHANGED <<script, ip, queue, pushed, delivered, prod, waiting, pcC, spurious, finished>>
Spurious == /\ CanSpurious
            /\ woken' = TRUE /\ spurious' = spurious + 1
            /\ UNCHANGED <<script, ip, queue, pushed, delivered, prod, waiting, fired, pcC, finished>>

PStep == PStill \/ PCont \/ PPush \/ PDecoy \/ PYield \/ PEnd
CStep == CHead \/ CDeliver \/ CDiscard \/ CEager \/ CSuspend \/ CFinish \/ CResume
Next == PStep \/ CStep \/ Fire \/ Spurious

\* fair waking: the awaited events happen, the runtime polls a woken task, code runs on
Fairness == /\ WF_vars(PStill) /\ WF_vars(PCont) /\ WF_vars(PPush) /\ WF_vars(PYield) /\ WF_vars(PEnd)
            /\ WF_vars(CHead) /\ WF_vars(CDeliver) /\ WF_vars(CDiscard) /\ WF_vars(CEager) /\ WF_vars(CSuspend) /\ WF_vars(CFinish) /\ WF_vars(CResume)
            /\ WF_vars(Fire)
Spec == Init /\ [][Next]_vars /\ Fairness

-----------------------------------------------------------------------------
(* the property (scheduling half), on pushed / delivered / finished only   *)

IsPrefixOf(a, b) == Len(a) <= Len(b) /\ SubSeq(b, 1, Len(a)) = a
TypeOK == /\ ip \in 1..(Len(script) + 1) /\ prod \in {"running", "done"} /\ waiting \in BOOLEAN /\ fired \in BOOLEAN
          /\ pcC \in {"start", "pollprod", "prodrun", "popP", "popR", "idle", "done"} /\ woken \in BOOLEAN
          /\ spurious \in 0..MaxSpurious /\ finished \in BOOLEAN
\* nothing duplicated, reordered or invented, at every step
PrefixInv == IsPrefixOf(delivered, pushed) /\ pushed = [i \in 1..Len(pushed) |-> i]
\* what is queued is exactly what is pushed and not yet delivered
QueueInv == delivered \o SelectSeq(queue, LAMBDA x : x # 0) = pushed
\* at termination nothing is lost (also when the producer ended with a non-empty queue) and the script ran to its end
DoneInv == finished => (delivered = pushed /\ queue = <<>> /\ ip > Len(script) /\ prod = "done")
\* the stream terminates, and every pushed message is eventually delivered
Terminates == <>finished
EveryPushDelivered == \A i \in 1..MaxScript : (Len(pushed) >= i) ~> (Len(delivered) >= i)
AllDelivered == <>(finished /\ Len(delivered) = NPush(script))
=============================================================================
