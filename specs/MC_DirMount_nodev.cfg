SPECIFICATION GSpec
CONSTANTS
  PROFILE = "quick"
  MaxFiles = 1
  INDEX_OWN_PATH = TRUE
  FIX_INDEX_OWN = FALSE
  FIX_DIRNAME = FALSE
  FIX_LENGTH = FALSE
  SORT = "reverse"
  KnownDeviations = {}
  MOUNT_SET = "all"
  EMIT_MIN = 1
INVARIANT Refines
CHECK_DEADLOCK FALSE
