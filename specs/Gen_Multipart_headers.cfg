SPECIFICATION GSpec
CONSTANTS
  FAMILY = "headers"
  MaxParts = 2
  MaxLen = 1
  BNDS = {"b", "b-"}
  FULLTARGETS = FALSE
INVARIANT Emit
CHECK_DEADLOCK FALSE
