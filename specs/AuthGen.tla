------------------------------- MODULE AuthGen -------------------------------
(***************************************************************************)
(* Row tables of C12 / C13 (scenario emission and exhaustive check).       *)
(*  WHAT = "basic" | "jwt" selects the table, DEEP the bounds.             *)
(*  Gen_Auth_*.cfg: every row is printed as one JSON scenario (ASSUME).    *)
(*  MC_Auth*.cfg:   a one-step state machine visits every row (one state   *)
(*                  per row) and TLC checks the invariants below on it.    *)
(***************************************************************************)
EXTENDS Auth, TLC, Json

CONSTANTS WHAT, DEEP, EMIT

(***************************************************************************)
(* C13 table: pair lists x headers derived from the list                   *)
(***************************************************************************)
\* ("ct": a control character -- TAB, DEL, U+0001 --, legal in a configured pair like any other character)
UPartsQ == {<<>>, <<"a">>, <<"a", "b">>, <<"c2", "a">>, <<"a", "ct">>}
PPartsQ == {<<>>, <<"b">>, <<"b", ":", "a">>, <<":">>, <<"a", "b", "c3">>, <<"ct", "b">>}
UPartsD == UPartsQ \cup {<<"A">>, <<"a", "sp">>, <<"c4">>}
PPartsD == PPartsQ \cup {<<"b", ":">>, <<"a">>, <<"sp">>, <<"c2", "c3", "c4">>}
\* small sets for lists of three: prefixes of each other, a colon, an empty part
UParts3 == {<<>>, <<"a">>, <<"a", "b">>}
PParts3 == {<<>>, <<"b">>, <<"b", ":", "a">>}

PairsOf(U, P) == {[u |-> u, p |-> p] : u \in U, p \in P}
Lists1(S) == {<<a>> : a \in S}
Lists2(S) == {<<a, b>> : a \in S, b \in S}
Lists3(S) == {<<a, b, c>> : a \in S, b \in S, c \in S}

PairLists(D) == IF D THEN Lists1(PairsOf(UPartsD, PPartsD)) \cup Lists2(PairsOf(UPartsD, PPartsD)) \cup Lists3(PairsOf(UParts3, PParts3))
                     ELSE Lists1(PairsOf(UPartsQ, PPartsQ)) \cup Lists2(PairsOf(UPartsQ, PPartsQ))

DropLast(c)  == IF Len(c) = 0 THEN c ELSE SubSeq(c, 1, Len(c) - 1)
DropFirst(c) == IF Len(c) = 0 THEN c ELSE Tail(c)
RECURSIVE SwapCase(_)
SwapCase(c) == IF Len(c) = 0 THEN <<>>
               ELSE <<(IF Head(c) = "a" THEN "A" ELSE IF Head(c) = "A" THEN "a" ELSE Head(c))>> \o SwapCase(Tail(c))

\* credentials worth sending for a pair list: every user/password combination (exact and mixed) and near misses
NearCreds(pairs) ==
  LET I == 1..Len(pairs) IN
       {pairs[i].u \o <<":">> \o pairs[j].p : i \in I, j \in I}
  \cup {DropLast(CredOf(pairs[i])) : i \in I} \cup {DropFirst(CredOf(pairs[i])) : i \in I}
  \cup {CredOf(pairs[i]) \o <<"a">> : i \in I} \cup {CredOf(pairs[i]) \o <<":">> : i \in I} \cup {<<"a">> \o CredOf(pairs[i]) : i \in I}
  \cup {pairs[i].u \o pairs[i].p : i \in I}                      \* no colon
  \cup {pairs[i].p \o <<":">> \o pairs[i].u : i \in I}           \* swapped
  \cup {pairs[i].u \o <<":", ":">> \o pairs[i].p : i \in I}
  \cup {SwapCase(CredOf(pairs[i])) : i \in I}
  \cup {pairs[i].u : i \in I} \cup {<<":">> \o pairs[i].p : i \in I} \cup {pairs[i].u \o <<":">> : i \in I}
  \cup {<<>>, <<":">>}

SpellKinds == {"nopad", "noncanon", "lower", "upper", "twospace"}
OtherKinds == {"nospace", "tab", "bearer", "digest", "schemeonly", "missing", "badchar", "trailing", "lead", "midpad",
               "nonutf8_last", "nonutf8_trunc", "nonutf8_mid", "nonutf8_repl", "rawff",
               "twice"}       \* the right Authorization line sent twice: the field value is `Basic X, Basic X`, not the base64 of any pair
BasicHeaders(pairs) ==
  LET n == Len(pairs) IN
       {[kind |-> "basic", cred |-> c] : c \in NearCreds(pairs)}
  \cup {[kind |-> k, cred |-> CredOf(pairs[i])] : k \in SpellKinds \cup OtherKinds, i \in {1, n}}
  \cup {[kind |-> k, cred |-> pairs[1].u \o <<":">> \o pairs[n].p \o <<"a">>] : k \in SpellKinds}

Forms(pairs) == IF Len(pairs) = 1 THEN {"single", "array"} ELSE {"array"}
BasicMounts(D)  == IF D THEN {"top", "nested"} ELSE {"top"}
\* (the protected route has GET and POST handlers; HEAD is answered by the GET handler, OPTIONS by the framework's default handler --
\*  the fang guards them like every other request: a smaller set of headers is sent with these two methods)
BasicRowsOf(D, pl) ==
  {[mod |-> "basic", form |-> f, mount |-> m, method |-> (IF m = "nested" THEN "POST" ELSE "GET"), pairs |-> pl, hdr |-> h]
     : f \in Forms(pl), h \in BasicHeaders(pl), m \in (IF Len(pl) = 2 /\ D THEN {"top"} ELSE BasicMounts(D))}
  \cup {[mod |-> "basic", form |-> f, mount |-> "top", method |-> mth, pairs |-> pl, hdr |-> h]
     : f \in Forms(pl), mth \in {"OPTIONS", "HEAD"}, h \in {x \in BasicHeaders(pl) : x.kind \in {"basic", "missing", "bearer", "lower", "nonutf8_last"}}}

BasicRowOK(r) == /\ NoColonInUsers(r.pairs)
                 /\ BasicRefines(r.pairs, r.hdr)
                 \* the oracle is a function of the decoded text only: an exact header is admitted iff its text is a configured u:p
                 /\ (r.hdr.kind = "basic" => (AllowedBasic(r.pairs, r.hdr) = {"ran"}) = CredOK(r.pairs, r.hdr.cred))
                 /\ (r.hdr.kind \in OtherKinds => "ran" \notin AllowedBasic(r.pairs, r.hdr) /\ "challenge" \in AllowedBasic(r.pairs, r.hdr))
                 /\ AllowedBasic(r.pairs, r.hdr) # {}

(***************************************************************************)
(* C12 table: families around the issued token of a configuration          *)
(***************************************************************************)
BaseTok(cfg) == [skey |-> "same", salg |-> cfg.alg, halg |-> cfg.alg, typ |-> "JWT", cty |-> "absent", hshape |-> "issue",
                 exp |-> "absent", nbf |-> "absent", iat |-> "absent", pay |-> "obj", mut |-> "none", via |-> "std", method |-> "GET"]
Cfgs(algs, keys, getters, ptypes, mounts) == [alg : algs, key : keys, getter : getters, ptype : ptypes, mount : mounts]
Row(c, t) == [mod |-> "jwt", cfg |-> c, tok |-> t]
K3 == {"k1", "k2", "k3", "k4"}          \* (k4: a secret with white space at both ends, which is part of the key like any other byte)
G2 == {"default", "custom"}
P2 == {"value", "typed"}
M2 == {"top", "nested"}

\* F1 who signed with what, and what the header claims
F1(D) == {Row(c, [BaseTok(c) EXCEPT !.skey = k, !.salg = a, !.halg = h, !.method = m])
         : c \in (IF D THEN Cfgs(Algs, K3, G2, P2, {"top"}) ELSE Cfgs(Algs, K3, {"default"}, {"value"}, {"top"})),
           k \in SKeys, a \in Algs, h \in HAlgs, m \in (IF D THEN {"GET", "POST"} ELSE {"GET"})}
\* F2 every mutation of the token string
F2(D) == {Row(c, [BaseTok(c) EXCEPT !.mut = mu, !.skey = k, !.method = m])
         : c \in (IF D THEN Cfgs(Algs, K3, G2, {"value"}, M2) ELSE Cfgs(Algs, {"k1"}, G2, {"value"}, {"top"})),
           mu \in (IF D THEN Muts ELSE Muts \ {"flipall1", "flipall2", "flipall3"}), k \in (IF D THEN {"same", "other", "near"} ELSE {"same", "other"}),
           m \in (IF D THEN Methods ELSE {"GET", "OPTIONS"})}
   \cup {Row(c, [BaseTok(c) EXCEPT !.mut = mu, !.method = m])
         : c \in Cfgs(Algs, {"k2"}, {"default"}, P2, {"top"}), mu \in {"none", "flip3", "extra", "trunc"}, m \in {"POST", "HEAD"}}
   \cup {Row(c, [BaseTok(c) EXCEPT !.mut = mu])      \* quick: every symbol at every position of the signature, one configuration per algorithm
         : c \in Cfgs(Algs, {"k3"}, {"default"}, {"value"}, {"top"}), mu \in {"flipall3"}}
\* F2v every transport
F2v(D) == {Row(c, [BaseTok(c) EXCEPT !.via = v, !.skey = k, !.method = m])
         : c \in (IF D THEN Cfgs(Algs, K3, G2, P2, M2) ELSE Cfgs(Algs, {"k1"}, G2, {"value"}, {"top"})),
           v \in Vias, k \in {"same", "other"}, m \in Methods}
\* F3 every combination of time claims
F3(D) == {Row(c, [BaseTok(c) EXCEPT !.exp = e, !.nbf = n, !.iat = i, !.skey = k])
         : c \in (IF D THEN Cfgs(Algs, {"k1"}, G2, P2, {"top"}) ELSE Cfgs(Algs, {"k1"}, {"default"}, P2, {"top"})),
           e \in ClaimKinds, n \in ClaimKinds, i \in ClaimKinds, k \in (IF D THEN {"same", "other"} ELSE {"same"})}
\* F4 every header
F4(D) == {Row(c, [BaseTok(c) EXCEPT !.halg = h, !.typ = t, !.cty = y, !.hshape = s, !.skey = k, !.mut = mu])
         : c \in Cfgs(Algs, {"k2"}, {"default"}, {"value"}, {"top"}),
           h \in HAlgs, t \in Typs, y \in Ctys, s \in HShapes,
           k \in (IF D THEN {"same", "other"} ELSE {"same"}), mu \in (IF D THEN {"none", "extra"} ELSE {"none"})}
\* F5 payload shapes against payload types
F5(D) == {Row(c, [BaseTok(c) EXCEPT !.pay = p, !.exp = e, !.skey = k, !.mut = mu])
         : c \in (IF D THEN Cfgs(Algs, {"k1"}, G2, P2, {"top"}) ELSE Cfgs(Algs, {"k3"}, {"default"}, P2, {"top"})),
           p \in Pays, e \in (IF D THEN ClaimKinds ELSE {"absent", "past", "future", "pastf"}),
           k \in {"same", "other"}, mu \in {"none", "flip2", "extra"}}
\* F6 (deep) claims x mutation x transport
F6(D) == IF ~D THEN {} ELSE
      {Row(c, [BaseTok(c) EXCEPT !.exp = e, !.nbf = n, !.mut = mu, !.via = v])
         : c \in Cfgs(Algs, {"k3"}, {"default"}, {"value"}, {"nested"}),
           e \in ClaimKinds, n \in ClaimKinds, mu \in {"none", "extra", "flip3", "sigbits"}, v \in {"std", "lcscheme", "twospace"}}

\* F7 stacked fangs: an outer JWT fang of the same payload type, with another secret and its own (always valid) token, in front of the
\* configured one -- what the inner fang admits does not change
F7(D) == {Row(c, [BaseTok(c) EXCEPT !.mut = mu, !.skey = k, !.via = v, !.method = m])
         : c \in Cfgs(Algs, (IF D THEN K3 ELSE {"k1"}), {"default"}, P2, {"stacked"}),
           mu \in {"none", "flip3", "extra", "garbage", "trunc"}, k \in {"same", "other", "outer"}, v \in {"std", "nohdr", "wronghdr"}, m \in {"GET", "POST"}}
\* (skey = "outer": signed with the outer fang's key, and the very same token is presented to both fangs -- valid for the outer one, to be refused by the inner)

JwtRowOK(r) ==
  LET c == r.cfg  t == r.tok  cl == JwtClass(c, t) IN
  /\ JwtRefines(c, t)
  \* sanity of the oracle against itself
  /\ (t = BaseTok(c) => cl = "admit")                                        \* an untouched issued token is admitted
  /\ (cl = "admit" => t.mut = "none" /\ SigOK(c, t) /\ t.halg = c.alg /\ ClaimVerdicts(t) = {"yes"} /\ Decodable(c, t))
  /\ (t.method # "OPTIONS" /\ t.mut # "none" => cl = "refuse")               \* any mutation is refused
  /\ (t.method # "OPTIONS" /\ (t.skey # "same" \/ t.salg # c.alg) => cl = "refuse")   \* other key / other MAC algorithm
  /\ (t.method # "OPTIONS" /\ t.halg \in {"none", "absent"} \cup (Algs \ {c.alg}) => cl = "refuse")
  /\ (cl = "refuse" <=> (t.method # "OPTIONS" /\ FirstWhy(c, t) # "-"))
  /\ (JwtDeviation(c, t) # "none" => t.mut = "extra" \/ t.via = "rawff" \/ NonU64Miss(t))

(***************************************************************************)
(* emission / exhaustive visit                                             *)
(***************************************************************************)
\* rows are visited group by group (a pair list / a family) so that no giant set has to be normalised
\* F8 a token that expires while the connection to the clock is the only thing that changes: presented after an exchange and an idle gap
F8(D) == {Row(c, [BaseTok(c) EXCEPT !.exp = "lapsed", !.pay = "obj"]) : c \in Cfgs(Algs, {"k1"}, {"default"}, {"value"}, {"top"})}
Groups == IF WHAT = "basic" THEN PairLists(DEEP) ELSE {"F1", "F2", "F2v", "F3", "F4", "F5", "F6", "F7", "F8"}
RowsOf(g) == IF WHAT = "basic" THEN BasicRowsOf(DEEP, g)
             ELSE CASE g = "F1" -> F1(DEEP) [] g = "F2" -> F2(DEEP) [] g = "F2v" -> F2v(DEEP) [] g = "F3" -> F3(DEEP)
                    [] g = "F4" -> F4(DEEP) [] g = "F5" -> F5(DEEP) [] g = "F6" -> F6(DEEP) [] g = "F7" -> F7(DEEP) [] g = "F8" -> F8(DEEP)
RowOK(r) == IF r.mod = "basic" THEN BasicRowOK(r) ELSE JwtRowOK(r)

ASSUME EMIT => \A g \in Groups : \A r \in RowsOf(g) : PrintT(ToJson(r))

\* every named deviation is needed by some row (the list is not padded) and refinement is not vacuous
NeedsDeviation(r) == IF r.mod = "basic" THEN ImplBasic(r.pairs, r.hdr) \notin AllowedBasic(r.pairs, r.hdr)
                     ELSE JwtDeviates(r.cfg, r.tok)
DevName(r) == IF r.mod = "basic" THEN BasicDeviation(r.hdr) ELSE JwtDeviation(r.cfg, r.tok)
ASSUME ~EMIT => LET known == IF WHAT = "basic" THEN KnownBasicDeviations ELSE KnownJwtDeviations IN
                \A d \in known : \E g \in Groups : \E r \in RowsOf(g) : DevName(r) = d /\ NeedsDeviation(r)
=============================================================================
