----------------------------- MODULE Trace_Cors -----------------------------
(* Trace validation for C14: every line is one policy + application built on the real code with the real CORS fang,
   plus the observation of every request of the scenario.  Each request is judged by ResponseOK (layer (a)); the
   verdict of the line lists every request outside the property with its own signature (configuration class of the
   addressed path, request class, outcome class), so that one known deviation does not hide another violation in
   the same application.  `drift` counts the requests on which the mechanism model (layer (b)) and the code differ. *)
EXTENDS Cors, Json, IOUtils

Rec == ndJsonDeserialize(IOEnv.TRACE)
VARIABLE l

Sig(pol, apps, req, o) ==
  [cfg |-> CfgClass(apps, Normalize(req.path, req.trailing)), req |-> ReqClass(apps, req),
   out |-> OutClass(pol, apps, req, o), status |-> ToString(o.status)]
\* model and code agree on what is compared (body length only as empty / not empty)
Agrees(m, o) == /\ m.status = o.status /\ (m.blen = 0) = (o.blen = 0) /\ o.wf
                /\ m.acao = o.acao /\ m.acac = o.acac /\ m.aceh = o.aceh /\ m.acma = o.acma /\ m.acah = o.acah /\ m.acam = o.acam
Judge(r) ==
  IF r.obs.kind = "nobuild"
    THEN [ok |-> TRUE, sig |-> [class |-> IF BuildApp(r.scn.apps).ok THEN "nobuild-unexpected" ELSE "nobuild-as-modelled", where |-> r.obs.where],
          bad |-> <<>>, drift |-> {}]
  ELSE IF r.obs.kind # "cors" THEN [ok |-> FALSE, sig |-> [class |-> r.obs.kind, where |-> r.obs.where], bad |-> <<>>, drift |-> {}]
  ELSE LET rs == r.scn.reqs  pol == r.scn.policy  ap == r.scn.apps
           badk == {k \in DOMAIN rs : ~ResponseOK(pol, ap, rs[k], r.obs.res[k])}
           rt == BuildApp(ap)
           \* (under the mount prefix of a gated application the gate answers -- unless the greedy descent took the request to a sibling
           \*  of the mount point, which is C04's subject: either answer explains the observation)
           dr == {k \in DOMAIN rs : /\ ~(Gated(ap, rs[k]) /\ Agrees(Bite(pol, rs[k], GateInner(rs[k])), r.obs.res[k]))
                                     /\ ~Agrees(Mech(rt, pol, rs[k]), r.obs.res[k]) /\ ~Agrees(MechBT(rt, pol, rs[k]), r.obs.res[k])}
       IN [ok |-> badk = {} /\ Len(r.obs.res) = Len(rs),
           sig |-> [class |-> IF badk = {} THEN "ok" ELSE "requests-outside-the-property", nbad |-> ToString(Cardinality(badk))],
           bad |-> [j \in 1..Cardinality(badk) |-> LET k == SetToSeq(badk)[j] IN [k |-> k, sig |-> Sig(pol, ap, rs[k], r.obs.res[k])]],
           drift |-> dr]

TInit == l = 1
TNext == /\ l <= Len(Rec) /\ l' = l + 1
         /\ LET j == Judge(Rec[l]) IN
            PrintT(ToJson([t |-> "VERDICT", id |-> Rec[l].id, ok |-> j.ok, sig |-> j.sig, bad |-> j.bad, drift |-> Cardinality(j.drift), driftk |-> SetToSeq(j.drift)]))
TSpec == TInit /\ [][TNext]_l
=============================================================================
