CONSTANTS
  WHAT = "basic"
  DEEP = FALSE
  EMIT = TRUE
