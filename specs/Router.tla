------------------------------- MODULE Router -------------------------------
(***************************************************************************)
(* Routing and fang (middleware) scoping of ohkami (properties C01, C04;   *)
(* the application vocabulary is reused by C14, C15, C19).                 *)
(*                                                                         *)
(* Layer (a)  oracle on segment lists:  Matches / Best / Greedy / Allowed  *)
(*            (C01) and ExpectedFangs / OnionTrace (C04).                  *)
(* Layer (b)  the mechanism: ohkami/src/router/base.rs (Insert =           *)
(*            register_handler, MergeAt = merge_node/merge_here,           *)
(*            ApplyFangs), router/final.rs (Finalize = From<base::Node>:   *)
(*            compression + child sort; Take = Pattern::take_through;      *)
(*            Search = Node::search_target).                               *)
(*                                                                         *)
(* Text is modelled as sequences of 1-character strings.  A route is a     *)
(* sequence of segments [k |-> "S", s |-> chars] or [k |-> "P", s |-> <<>>]*)
(* A request path is a sequence of segments (sequences of chars, possibly  *)
(* empty) plus a number of trailing slashes.                               *)
(***************************************************************************)
EXTENDS Naturals, Sequences, FiniteSets, TLC, SequencesExt

CONSTANTS BOUNDARY,   \* take_through on a static pattern requires a segment boundary after the pattern
          RULE        \* compression: "orig" (merge whenever single static child, lists concatenated parent-first)
                      \*              "precise" (every node inherits its parent's fangs outside its own; merge only if the
                      \*               node's list equals its parent's -- for the root: the child's)

SSeg(w) == [k |-> "S", s |-> w]
PSeg    == [k |-> "P", s |-> <<>>]

\* ------------------------------------------------------------------------------------------ layer (a): C01
\* request path p: sequence of segments (each a sequence of chars).  One trailing slash is ignored by the caller.
Matches(r, p) == Len(r) = Len(p) /\ \A i \in 1..Len(p) : IF r[i].k = "S" THEN r[i].s = p[i] ELSE p[i] # <<>>
RECURSIVE Better(_, _, _)
Better(r1, r2, i) == IF i > Len(r1) THEN FALSE ELSE IF r1[i].k # r2[i].k THEN r1[i].k = "S" ELSE Better(r1, r2, i + 1)
\* the matching route that prefers a static alternative at the earliest position where candidates differ
Best(rs, p) == LET ms == {r \in rs : Matches(r, p)} IN
               IF ms = {} THEN <<"404">> ELSE <<"h", CHOOSE r \in ms : \A q \in ms \ {r} : Better(r, q, 1)>>
\* greedy descent without backtracking (static preferred at each position, never revisited)
RECURSIVE Greedy(_, _, _)
Greedy(rs, p, i) ==
  IF i > Len(p) THEN LET d == {r \in rs : Len(r) = i - 1} IN IF d = {} THEN <<"404">> ELSE <<"h", CHOOSE r \in d : TRUE>>
  ELSE LET st == {r \in rs : Len(r) >= i /\ r[i].k = "S" /\ r[i].s = p[i]}
           pa == {r \in rs : Len(r) >= i /\ r[i].k = "P" /\ p[i] # <<>>}
       IN IF st # {} THEN Greedy(st, p, i + 1) ELSE IF pa # {} THEN Greedy(pa, p, i + 1) ELSE <<"404">>
\* the property text fixes the preference at each position but not whether the router backtracks: both are allowed
Allowed(rs, p) == {Best(rs, p), Greedy(rs, p, 1)}
\* param values a handler must receive: the path segments at the param positions of the matched route
ParamsOf(r, p) == LET idx == SelectSeq([i \in 1..Len(r) |-> i], LAMBDA i : r[i].k = "P") IN [j \in DOMAIN idx |-> p[idx[j]]]

\* request path normalisation: trailing slashes are empty segments at the end; exactly one of them is ignored
Normalize(path, trailing) == LET tot == path \o [i \in 1..trailing |-> <<>>] IN
                             IF tot # <<>> /\ Last(tot) = <<>> THEN Front(tot) ELSE tot

\* ------------------------------------------------------------------------------------------ layer (a): C04
\* prefix match of a mount prefix m (segments) against a request path p
Under(m, p) == Len(p) >= Len(m) /\ \A i \in 1..Len(m) : IF m[i].k = "S" THEN m[i].s = p[i] ELSE p[i] # <<>>

\* ------------------------------------------------------------------------------------------ layer (b): base tree
\* base node: [pat: "root" | segment, h: <<>> | handler value, fg: fang list (innermost first), ch: children]
Leaf(seg) == [pat |-> seg, h |-> <<>>, fg |-> <<>>, ch |-> <<>>]
Root      == [pat |-> "root", h |-> <<>>, fg |-> <<>>, ch |-> <<>>]
SameSeg(a, b) == IF a.k = "P" THEN b.k = "P" ELSE (b.k = "S" /\ a.s = b.s)      \* Pattern::matches
\* Node::register_handler
RECURSIVE Insert(_, _, _, _)
Insert(n, r, i, hv) ==
  IF i > Len(r) THEN [n EXCEPT !.h = hv]
  ELSE LET idx == {j \in 1..Len(n.ch) : SameSeg(n.ch[j].pat, r[i])} IN
       IF idx # {} THEN LET j == CHOOSE j \in idx : \A m \in idx : j =< m IN [n EXCEPT !.ch[j] = Insert(n.ch[j], r, i + 1, hv)]
       ELSE [n EXCEPT !.ch = Append(n.ch, Insert(Leaf(r[i]), r, i + 1, hv))]
\* FangsList::add / append (dedupe by identity)
AddFang(list, f) == IF \E j \in 1..Len(list) : list[j] = f THEN list ELSE Append(list, f)
RECURSIVE AppendFangs(_, _)
AppendFangs(list, more) == IF more = <<>> THEN list ELSE AppendFangs(AddFang(list, Head(more)), Tail(more))
\* Node::apply_fangs: the application's fang set f (one list entry per application) on every node of its tree
RECURSIVE ApplyFangs(_, _)
ApplyFangs(n, f) == [n EXCEPT !.fg = AddFang(@, f), !.ch = [j \in 1..Len(n.ch) |-> ApplyFangs(n.ch[j], f)]]
\* Node::merge_node + merge_here: mount the root c of another application below prefix m
\* Node::merge_child (repair of C01-param-sibling-shadowed): a `:param` child of the mounted root that meets a `:param`
\* child of the mount point is merged into it, recursively (two param siblings: the second is never reached by
\* search_target).  PMERGE = FALSE is the code before the repair (children appended as they are); a cfg overrides it.
PMERGE == TRUE
RECURSIVE MergeChild(_, _), MergeChildren(_, _)
MergeChild(n, c) ==
  LET idx == {j \in 1..Len(n.ch) : n.ch[j].pat.k = "P"} IN
  IF PMERGE /\ c.pat.k = "P" /\ idx # {}
    THEN LET j == CHOOSE j \in idx : \A q \in idx : j =< q IN
         [n EXCEPT !.ch[j] = MergeChildren([@ EXCEPT !.fg = AppendFangs(@, c.fg), !.h = IF c.h # <<>> THEN c.h ELSE @], c.ch)]
    ELSE [n EXCEPT !.ch = Append(@, c)]
MergeChildren(n, cs) == IF cs = <<>> THEN n ELSE MergeChildren(MergeChild(n, Head(cs)), Tail(cs))
RECURSIVE MergeAt(_, _, _, _)
MergeAt(n, m, i, c) ==
  IF i > Len(m) THEN MergeChildren([n EXCEPT !.fg = AppendFangs(@, c.fg), !.h = IF c.h # <<>> THEN c.h ELSE @], c.ch)
  ELSE LET idx == {j \in 1..Len(n.ch) : SameSeg(n.ch[j].pat, m[i])} IN
       IF idx # {} THEN LET j == CHOOSE j \in idx : \A q \in idx : j =< q IN [n EXCEPT !.ch[j] = MergeAt(n.ch[j], m, i + 1, c)]
       ELSE [n EXCEPT !.ch = Append(n.ch, MergeAt(Leaf(m[i]), m, i + 1, c))]

\* ------------------------------------------------------------------------------------------ layer (b): final tree
\* final node: [kind: "S" | "P", bytes: chars incl. "/", h, fg, ch]
Bytes(seg) == <<"/">> \o seg.s
Ord(c) == CASE c = "/" -> 47 [] c = "a" -> 97 [] c = "b" -> 98 [] c = "c" -> 99 [] c = "2" -> 50 [] c = "-" -> 45
            [] c = "." -> 46 [] c = "_" -> 95 [] c = "%" -> 37 [] c = "z" -> 122 [] OTHER -> 120
RECURSIVE LexLess(_, _)
LexLess(x, y) == IF x = <<>> THEN y # <<>> ELSE IF y = <<>> THEN FALSE
                 ELSE IF Ord(x[1]) # Ord(y[1]) THEN Ord(x[1]) < Ord(y[1]) ELSE LexLess(Tail(x), Tail(y))
\* children: statics in reverse lexicographic order, then the param
Before(a, b) == IF a.kind = "S" /\ b.kind = "S" THEN LexLess(b.bytes, a.bytes) ELSE (a.kind = "S" /\ b.kind = "P")
\* FangsList::inherit: the fangs of the surrounding node go outside of the ones only `own` has
Inherit(own, outer) == SelectSeq(own, LAMBDA f : \A j \in DOMAIN outer : outer[j] # f) \o outer
\* gfg: [root |-> BOOLEAN, fg |-> the parent's final fang list]
CanMerge(n, gfg) ==
  /\ Len(n.ch) = 1 /\ n.h = <<>> /\ n.kind = "S" /\ n.ch[1].pat.k = "S"
  /\ CASE RULE = "orig" -> TRUE
       [] RULE = "precise" -> IF gfg.root THEN n.fg = Inherit(n.ch[1].fg, n.fg) ELSE n.fg = gfg.fg
Merged(n) == [kind |-> "S", bytes |-> n.bytes \o Bytes(n.ch[1].pat), h |-> n.ch[1].h,
              fg |-> IF RULE = "orig" THEN AppendFangs(n.fg, n.ch[1].fg) ELSE Inherit(n.ch[1].fg, n.fg), ch |-> n.ch[1].ch]
RECURSIVE Compress(_, _)
Compress(n, gfg) == IF CanMerge(n, gfg) THEN Compress(Merged(n), gfg) ELSE n
RECURSIVE Finalize(_, _)
Finalize(b, gfg) ==
  LET n0 == [kind |-> IF gfg.root THEN "S" ELSE b.pat.k,
             bytes |-> IF gfg.root THEN <<>> ELSE (IF b.pat.k = "S" THEN Bytes(b.pat) ELSE <<>>),
             h |-> b.h, fg |-> IF gfg.root \/ RULE = "orig" THEN b.fg ELSE Inherit(b.fg, gfg.fg), ch |-> b.ch]
      n1 == Compress(n0, gfg)
      kids == [j \in 1..Len(n1.ch) |-> Finalize(n1.ch[j], [root |-> FALSE, fg |-> n1.fg])]
  IN [n1 EXCEPT !.ch = SortSeq(kids, Before)]
FinalizeRoot(b) == Finalize(b, [root |-> TRUE, fg |-> <<>>])

IsPrefixOf(s, t) == Len(s) =< Len(t) /\ SubSeq(t, 1, Len(s)) = s
Drop(t, k) == SubSeq(t, k + 1, Len(t))
\* Pattern::take_through: <<matched, remaining, param taken (or <<>>)>>
Take(n, bytes) ==
  IF n.kind = "S"
    THEN IF IsPrefixOf(n.bytes, bytes) /\ (~BOUNDARY \/ Len(bytes) = Len(n.bytes) \/ bytes[Len(n.bytes) + 1] = "/")
           THEN <<TRUE, Drop(bytes, Len(n.bytes)), <<>>>> ELSE <<FALSE, bytes, <<>>>>
    ELSE IF Len(bytes) >= 2 /\ bytes[1] = "/" /\ bytes[2] # "/"
           THEN LET rest == Drop(bytes, 1)
                    pos == IF \E k \in 1..Len(rest) : rest[k] = "/"
                             THEN (CHOOSE k \in 1..Len(rest) : rest[k] = "/" /\ \A m \in 1..(k - 1) : rest[m] # "/")
                             ELSE Len(rest) + 1
                IN <<TRUE, Drop(rest, pos - 1), <<SubSeq(rest, 1, pos - 1)>>>>
           ELSE <<FALSE, bytes, <<>>>>
\* Node::search_target: [h |-> handler or <<"404">>, fg |-> fang list wrapping what runs, params |-> pushed params]
RECURSIVE Descend(_, _, _)
Descend(n, bytes, ps) ==
  LET hits == {j \in 1..Len(n.ch) : Take(n.ch[j], bytes)[1]} IN
  IF hits = {} THEN [h |-> <<"404">>, fg |-> n.fg, params |-> ps]
  ELSE LET j == CHOOSE j \in hits : \A m \in hits : j =< m
           t == Take(n.ch[j], bytes)
       IN IF t[2] = <<>> THEN [h |-> IF n.ch[j].h = <<>> THEN <<"404">> ELSE n.ch[j].h, fg |-> n.ch[j].fg, params |-> ps \o t[3]]
          ELSE Descend(n.ch[j], t[2], ps \o t[3])
Search(root, bytes) ==
  LET t == Take(root, bytes) IN
  IF ~t[1] THEN [h |-> <<"404">>, fg |-> root.fg, params |-> <<>>]
  ELSE IF t[2] = <<>> THEN [h |-> IF root.h = <<>> THEN <<"404">> ELSE root.h, fg |-> root.fg, params |-> <<>>]
  ELSE Descend(root, t[2], <<>>)
\* the bytes the router sees: "/seg" per segment (one trailing slash already stripped by the request parser)
PathBytes(p) == FoldLeft(LAMBDA acc, s : acc \o <<"/">> \o s, <<>>, p)
=============================================================================
