SPECIFICATION GSpec
CONSTANTS
  MaxScript = 0
  MaxSpurious = 0
  FORWARD_WAKER = TRUE
  READY_DRAINS = TRUE
  FILTER_MODE = "none"
  CHAIN_MODE = "none"
  MODE = "frame"
  MaxTok = 4
  MaxPairTok = 2
  Toks = {"x", "u", "n", "LF", "CR", "CRLF", "SP", "COLON", "DATA", "EV", "ID", "RETRY", "BOM"}
INVARIANT Emit
CHECK_DEADLOCK FALSE
