CONSTANTS
  Families = {"dec", "iter", "set"}
  DecLen = 2
  IterLen = 2
  SetLen = 2
