SPECIFICATION Spec
CONSTANTS
  BOUNDARY = TRUE
  RULE = "precise"
  NApps = 2
  MaxRoutes = 1
  MaxDepth = 2
  MODE = "c04"
  FANGS = TRUE
  METHODS = FALSE
  RICH = FALSE
INVARIANT Emit
CHECK_DEADLOCK FALSE
