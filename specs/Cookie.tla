------------------------------- MODULE Cookie -------------------------------
(***************************************************************************)
(* C11 - Cookie header decoding and Set-Cookie building.                   *)
(*                                                                         *)
(* Layer (a) on bytes / code points (UTF-8 and percent-coding from UrlEnc):*)
(*  RefJar(text)   the cookies denoted by a `Cookie:` header value per     *)
(*                 RFC 6265 4.2.1 (`; `-separated name=value pairs, value  *)
(*                 = *cookie-octet or DQUOTE *cookie-octet DQUOTE), values *)
(*                 percent-decoded and read as UTF-8                       *)
(*  RefSet(line)   RFC 6265 5.2 parse of a Set-Cookie line (subset: the    *)
(*                 seven attributes), Conformant(line) the 4.1.1 grammar   *)
(* Layer (b): ohkami's Name/Value section walker for the Cookie header     *)
(* (ImplJar), with its named deviation (a raw `=` inside a value).         *)
(***************************************************************************)
EXTENDS UrlEnc

SEMI == 59
SPC == 32
DQ == 34

\* RFC 6265 / RFC 2616 character sets
IsCtl(b) == b < 32 \/ b = 127
IsSeparator(b) == b \in {40, 41, 60, 62, 64, 44, 59, 58, 92, 34, 47, 91, 93, 63, 61, 123, 125, 32, 9}
IsTokenChar(b) == b < 128 /\ ~IsCtl(b) /\ ~IsSeparator(b)
IsCookieOctet(b) == b = 33 \/ (b >= 35 /\ b <= 43) \/ (b >= 45 /\ b <= 58) \/ (b >= 60 /\ b <= 91) \/ (b >= 93 /\ b <= 126)
IsAvOctet(b) == b < 128 /\ ~IsCtl(b) /\ b # SEMI

\* ------------------------------------------------------------------ Cookie header
RECURSIVE SplitSemiSp(_, _, _)
\* split on the two-byte separator `; `
SplitSemiSp(bs, i, cur) == IF i > Len(bs) THEN <<cur>>
                           ELSE IF bs[i] = SEMI /\ i + 1 <= Len(bs) /\ bs[i + 1] = SPC THEN <<cur>> \o SplitSemiSp(bs, i + 2, <<>>)
                           ELSE SplitSemiSp(bs, i + 1, Append(cur, bs[i]))
CkParts(text) == IF text = <<>> THEN <<>> ELSE SplitSemiSp(text, 1, <<>>)
Unquote(v) == IF Len(v) >= 2 /\ v[1] = DQ /\ v[Len(v)] = DQ THEN SubSeq(v, 2, Len(v) - 1) ELSE v
CkName(p) == SubSeq(p, 1, IndexOf(p, EQS) - 1)
CkRawValue(p) == SubSeq(p, IndexOf(p, EQS) + 1, Len(p))
CkPartOK(p) == /\ IndexOf(p, EQS) > 1
               /\ \A i \in 1..Len(CkName(p)) : IsTokenChar(CkName(p)[i])
               /\ LET v == Unquote(CkRawValue(p)) IN (\A i \in 1..Len(v) : IsCookieOctet(v[i])) /\ WellFormedPct(v)
WellFormedCookie(text) == \A i \in 1..Len(CkParts(text)) : CkPartOK(CkParts(text)[i])
\* THE ORACLE of the decoding half
RefJar(text) == [i \in 1..Len(CkParts(text)) |->
                   LET p == CkParts(text)[i] IN [k |-> [ok |-> TRUE, v |-> CkName(p)], v |-> DecodeStr(Unquote(CkRawValue(p)))]]

\* reference producers: every spelling RFC 6265 allows for a value (esc[i] says whether byte-sequence of char i is escaped)
CkRawOK(cp) == IsCookieOctet(cp) /\ cp # PCT
SpellCk(s, esc, up) == Flat([i \in 1..Len(s) |-> IF esc[i] THEN Flat([j \in 1..Len(Utf8(s[i])) |-> Esc(Utf8(s[i])[j], up)]) ELSE Utf8(s[i])])
Quote(bs) == <<DQ>> \o bs \o <<DQ>>

\* ------------------------------------------------------------------ layer (b): ohkami's cookie section walker
CkNextPunc(inp) == IF \E i \in 1..Len(inp) : inp[i] \in {EQS, SEMI}
                   THEN CHOOSE i \in 1..Len(inp) : inp[i] \in {EQS, SEMI} /\ \A j \in 1..(i - 1) : inp[j] \notin {EQS, SEMI}
                   ELSE 0
ImplCkValueOK(v) == LET u == Unquote(v) IN \A i \in 1..Len(u) : u[i] < 128 /\ ~IsCtl(u[i]) /\ u[i] \notin {SPC, 44, SEMI, 92, DQ}
RECURSIVE ImplJarFrom(_, _)
ImplJarFrom(inp, first) ==
  IF inp = <<>> THEN [ok |-> TRUE, ps |-> <<>>] ELSE
  IF ~first /\ ~(Len(inp) >= 2 /\ inp[1] = SEMI /\ inp[2] = SPC) THEN [ok |-> FALSE, ps |-> <<>>] ELSE
  LET in1 == IF first THEN inp ELSE SubSeq(inp, 3, Len(inp))
      n == CkNextPunc(in1) IN
  IF n <= 1 \/ in1[n] # EQS \/ ~(\A i \in 1..(n - 1) : IsTokenChar(in1[i])) THEN [ok |-> FALSE, ps |-> <<>>] ELSE
  LET afterEq == SubSeq(in1, n + 1, Len(in1))
      m == CkNextPunc(afterEq) IN
  IF m # 0 /\ afterEq[m] # SEMI THEN [ok |-> FALSE, ps |-> <<>>] ELSE      \* deviation: a raw `=` inside the value
  LET raw == IF m = 0 THEN afterEq ELSE SubSeq(afterEq, 1, m - 1)
      rest == IF m = 0 THEN <<>> ELSE SubSeq(afterEq, m, Len(afterEq)) IN
  IF ~ImplCkValueOK(raw) THEN [ok |-> FALSE, ps |-> <<>>] ELSE
  LET more == ImplJarFrom(rest, FALSE) IN
  [ok |-> more.ok, ps |-> <<[k |-> SubSeq(in1, 1, n - 1), v |-> PctDecode(Unquote(raw))]>> \o more.ps]
ImplJar(text) == ImplJarFrom(text, TRUE)
RawEqInValue(text) == \E i \in 1..Len(CkParts(text)) : Count(CkParts(text)[i], EQS) > 1

\* ------------------------------------------------------------------ Set-Cookie (RFC 6265 5.2, subset)
Lower(b) == IF b >= 65 /\ b <= 90 THEN b + 32 ELSE b
LowerSeq(bs) == [i \in 1..Len(bs) |-> Lower(bs[i])]
IsWsp(b) == b = 32 \/ b = 9
RECURSIVE TrimL(_)
TrimL(bs) == IF bs # <<>> /\ IsWsp(bs[1]) THEN TrimL(Tail(bs)) ELSE bs
RECURSIVE TrimR(_)
TrimR(bs) == IF bs # <<>> /\ IsWsp(bs[Len(bs)]) THEN TrimR(SubSeq(bs, 1, Len(bs) - 1)) ELSE bs
Trim(bs) == TrimR(TrimL(bs))
A_EXPIRES == <<101, 120, 112, 105, 114, 101, 115>>
A_MAXAGE == <<109, 97, 120, 45, 97, 103, 101>>
A_DOMAIN == <<100, 111, 109, 97, 105, 110>>
A_PATH == <<112, 97, 116, 104>>
A_SECURE == <<115, 101, 99, 117, 114, 101>>
A_HTTPONLY == <<104, 116, 116, 112, 111, 110, 108, 121>>
A_SAMESITE == <<115, 97, 109, 101, 115, 105, 116, 101>>
AvName(av) == LET e == IndexOf(av, EQS) IN LowerSeq(Trim(IF e = 0 THEN av ELSE SubSeq(av, 1, e - 1)))
AvValue(av) == LET e == IndexOf(av, EQS) IN IF e = 0 THEN <<>> ELSE Trim(SubSeq(av, e + 1, Len(av)))
\* value of the last attribute with that name as a 0/1-element sequence (flags: <<>> / << <<>> >>)
Attr(avs, name) == LET ix == {i \in 1..Len(avs) : AvName(avs[i]) = name} IN
                   IF ix = {} THEN <<>> ELSE <<AvValue(avs[CHOOSE i \in ix : \A j \in ix : j <= i])>>
RefSet(line) ==
  LET parts == Split(line, SEMI)
      nv == parts[1]
      e == IndexOf(nv, EQS)
      avs == Tail(parts) IN
  [ok |-> e > 1,
   name |-> Trim(SubSeq(nv, 1, e - 1)),
   value |-> DecodeStr(Unquote(Trim(SubSeq(nv, e + 1, Len(nv))))),
   expires |-> Attr(avs, A_EXPIRES), maxage |-> Attr(avs, A_MAXAGE), domain |-> Attr(avs, A_DOMAIN), path |-> Attr(avs, A_PATH),
   secure |-> Attr(avs, A_SECURE), httponly |-> Attr(avs, A_HTTPONLY), samesite |-> Attr(avs, A_SAMESITE)]
KnownAttrs == {A_EXPIRES, A_MAXAGE, A_DOMAIN, A_PATH, A_SECURE, A_HTTPONLY, A_SAMESITE}
\* RFC 6265 4.1.1: cookie-pair *( ";" SP cookie-av ), a single line
Conformant(line) ==
  /\ \A i \in 1..Len(line) : line[i] \notin {13, 10} /\ line[i] < 128
  /\ LET parts == SplitSemiSp(line, 1, <<>>)
         nv == parts[1] IN
     /\ IndexOf(nv, EQS) > 1
     /\ \A i \in 1..(IndexOf(nv, EQS) - 1) : IsTokenChar(nv[i])
     /\ LET v == Unquote(SubSeq(nv, IndexOf(nv, EQS) + 1, Len(nv))) IN \A i \in 1..Len(v) : IsCookieOctet(v[i])
     /\ \A k \in 2..Len(parts) :
          LET av == parts[k] IN
          /\ av # <<>> /\ \A i \in 1..Len(av) : IsAvOctet(av[i])
          /\ AvName(av) \in KnownAttrs
          /\ (AvName(av) \in {A_SECURE, A_HTTPONLY}) <=> (IndexOf(av, EQS) = 0)
          /\ (AvName(av) = A_MAXAGE) => (AvValue(av) # <<>> /\ \A i \in 1..Len(AvValue(av)) : IsDigit(AvValue(av)[i]))

\* ------------------------------------------------------------------ vocabulary of the generators
CkClasses == {"al", "eq", "amp", "plus", "slash", "unres", "cko", "pct", "sp", "comma", "semi", "dq", "bsl", "ctl", "nul", "u2", "u3", "u4"}
CkClassOf(cp) == IF cp = 0 THEN "nul"
                 ELSE IF cp < 32 \/ cp = 127 THEN "ctl"
                 ELSE IF cp = 32 THEN "sp"
                 ELSE IF cp = 61 THEN "eq"
                 ELSE IF cp = 38 THEN "amp"
                 ELSE IF cp = 43 THEN "plus"
                 ELSE IF cp = 47 THEN "slash"
                 ELSE IF cp = 37 THEN "pct"
                 ELSE IF cp = 44 THEN "comma"
                 ELSE IF cp = 59 THEN "semi"
                 ELSE IF cp = 34 THEN "dq"
                 ELSE IF cp = 92 THEN "bsl"
                 ELSE IF IsAlnum(cp) THEN "al"
                 ELSE IF cp \in {45, 46, 95, 126} THEN "unres"
                 ELSE IF cp < 128 THEN "cko"
                 ELSE IF cp < 2048 THEN "u2"
                 ELSE IF cp < 65536 THEN "u3"
                 ELSE "u4"
CkClassesOf(s) == [i \in 1..Len(s) |-> CkClassOf(s[i])]
CkRawClass(c) == c \in {"al", "eq", "amp", "plus", "slash", "unres", "cko"}
\* name classes: "al" and "tp" (token punctuation ! # $ % & ' * + - . ^ _ ` | ~)
NameClassOf(cp) == IF IsAlnum(cp) THEN "al" ELSE IF IsTokenChar(cp) THEN "tp" ELSE "bad"

CF(f, k) == [f |-> f, k |-> k]
CkCatalogue == [
  CkA   |-> <<CF("a", "str")>>,
  CkAB  |-> <<CF("a", "str"), CF("b", "str")>>,
  CkBA  |-> <<CF("b", "str"), CF("a", "str")>>,
  CkOpt |-> <<CF("a", "str"), CF("o", "optstr")>>,
  CkRen |-> <<CF("x-y", "str"), CF("$t!", "str")>>,
  CkNum |-> <<CF("n", "u32"), CF("a", "str")>>,
  CkMap |-> <<>> ]
CkNameCp(f) == CASE f = "a" -> <<97>> [] f = "b" -> <<98>> [] f = "o" -> <<111>> [] f = "n" -> <<110>>
                 [] f = "x-y" -> <<120, 45, 121>> [] f = "$t!" -> <<36, 116, 33>>
=============================================================================
