INIT TInitAll
NEXT TNextAll
CONSTANTS
  MaxSegs = 9
  MaxPairs = 9
  MaxHeaders = 9
  FAMILY = "all"
CHECK_DEADLOCK FALSE
