SPECIFICATION Spec
CONSTANTS
  BOUNDARY = TRUE
  RULE = "precise"
  REPAIR = FALSE
  NApps = 3
  MaxRoutes = 3
  MaxDepth = 2
  MSETS = "full"
  PSIB = FALSE
  NPOL = 1
  RICHPOL = TRUE
  RICHREQ = TRUE
INVARIANT Emit
CHECK_DEADLOCK FALSE
