SPECIFICATION GSpec
CONSTANTS
  MaxLen = 4
  MaxFaults = 2
  TOPLEN = 2
  PCTLEN = 3
  RICH = FALSE
  DECS = {"urlenc", "cookie", "multipart", "setcookie", "pct"}
INVARIANT Emit
CHECK_DEADLOCK FALSE
