--------------------------- MODULE RespHeadersGen ---------------------------
(* Scenario emission for C03: every operation history of length 0..MaxOps over the op alphabet of the
   bounded model, each sent for GET and HEAD.  The harness applies it to a real Response through the
   public API, snapshots the header block after every operation and serialises through the router. *)
EXTENDS MC_RespHeaders, Json, SequencesExt

CONSTANTS SHARD, NSHARDS

GOps == Ops \cup {<<"set", "A", "L">>, <<"body", "html", "n300">>, <<"body", "raw", "n0">>, <<"body", "stream", "n0">>, <<"body", "stream", "n248">>, <<"cookie", "c2">>, <<"rebuild">>}
Hist(k) == [1..k -> GOps]
\* sharding on the first operation keeps every TLC process busy
OpsSeq == SetToSeq(GOps)
InShard(h) == IF Len(h) = 0 THEN SHARD = 0
              ELSE (CHOOSE i \in DOMAIN OpsSeq : OpsSeq[i] = h[1]) % NSHARDS = SHARD

ASSUME \A k \in 0..MaxOps : \A h \in Hist(k) : InShard(h) =>
          \A m \in {"GET", "HEAD"} : PrintT(ToJson([ops |-> h, method |-> m]))
=============================================================================
