----------------------------- MODULE TimersGen -----------------------------
(* Scenario emission for the conformance run of Timers.tla.  A scenario is assembled step by step (session deadline and
   outer app, mounted app and number of requests, one request per step, the client's fin); TLC runs this module in
   simulation mode (seeded random walks), and the last step prints the scenario — only if it is Robust (MARGIN ticks between
   every scripted instant and every deadline it is compared with), together with its class (per-request outcome the
   oracle predicts, how the session ends, nested / zero Timeouts) so that the driver can sample evenly over classes. *)
EXTENDS MC_Timers, Json

VARIABLES stage, g, left
gvars == <<stage, g, left, vars>>

GInit == stage = "app" /\ g = Blank /\ left = 0 /\ Init
GApp == /\ stage = "app" /\ stage' = "sub" /\ left' = left
        /\ \E S \in SS, a \in Onions(NAPP, 0) : g' = [g EXCEPT !.S = S, !.app = a]
GSub == /\ stage = "sub" /\ stage' = "req"
        /\ \E b \in Onions(NSUB, 10), n \in 1..NREQ : g' = [g EXCEPT !.sub = b] /\ left' = n
Renumber(ls, q) == [j \in DOMAIN ls |-> IF ls[j].k = "L" THEN [ls[j] EXCEPT !.id = @ + 10 * q] ELSE ls[j]]
GReq == /\ stage = "req" /\ left > 0 /\ left' = left - 1 /\ stage' = (IF left = 1 THEN "fin" ELSE "req")
        /\ \E r \in Reqs(g.conn = <<>>) :
              LET q == Len(g.conn) + 1
                  at == IF q = 1 THEN r.at ELSE g.conn[q - 1].at + r.at
              IN g' = [g EXCEPT !.conn = Append(@, [r EXCEPT !.at = at, !.loc = Renumber(r.loc, q)])]
NTs(ls) == Len(SelectSeq(ls, LAMBDA y : y.k = "T"))
ClassOf(s) == LET x == Expected(s)
                  nresp == Len(Resps(x.cl))
                  per == [q \in DOMAIN s.conn |-> IF q =< nresp THEN (IF Resps(x.cl)[q].b > 0 THEN "B" ELSE "T") ELSE IF q =< Len(ParsedAt(x.sv)) THEN "C" ELSE "-"]
              IN [per |-> per,
                  end |-> IF Has(x.sv, "close") THEN "fin" ELSE IF Has(x.sv, "sfire") THEN "deadline" ELSE "close",
                  nested |-> \E q \in DOMAIN s.conn : NTs(OnionOf(s, s.conn[q])) >= 2,
                  zero |-> \E q \in DOMAIN s.conn : \E m \in DOMAIN OnionOf(s, s.conn[q]) : OnionOf(s, s.conn[q])[m].k = "T" /\ OnionOf(s, s.conn[q])[m].d = 0,
                  fires |-> Len(SelectSeq(x.sv, LAMBDA y : y.e = "fire")),
                  len |-> x.end]
GFin == /\ stage = "fin" /\ stage' = "done" /\ left' = left
        /\ \E f \in FINS : LET s == WithFin(g, f) IN
              /\ g' = s
              /\ (IF Robust(s) THEN PrintT(ToJson([scn |-> s, cls |-> ClassOf(s)])) ELSE TRUE)
GNext == (GApp \/ GSub \/ GReq \/ GFin) /\ UNCHANGED vars
GSpec == GInit /\ [][GNext]_gvars
=============================================================================
