SPECIFICATION Spec
CONSTANTS
  REPAIRED = TRUE
  MaxLen = 3
  FullUpTo = 2
  KnownDev = {}
INVARIANTS SegInv ItemInv BindInv
CHECK_DEADLOCK FALSE
