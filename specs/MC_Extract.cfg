SPECIFICATION Spec
CONSTANTS
  REPAIRED = FALSE
  MaxLen = 3
  FullUpTo = 2
  KnownDev = {"prefix", "wrap"}
INVARIANTS SegInv ItemInv BindInv
CHECK_DEADLOCK FALSE
