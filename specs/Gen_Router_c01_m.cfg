SPECIFICATION Spec
CONSTANTS
  BOUNDARY = TRUE
  RULE = "precise"
  NApps = 1
  MaxRoutes = 2
  MaxDepth = 1
  MODE = "c01"
  FANGS = FALSE
  METHODS = TRUE
  RICH = FALSE
INVARIANT Emit
CHECK_DEADLOCK FALSE
