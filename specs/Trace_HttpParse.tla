-------------------------- MODULE Trace_HttpParse --------------------------
(* Trace validation for C02: every line is one request written by the HttpParse machine (or by the harness's
   random generator in the same vocabulary), the bytes of which were given to the real Request::read as the
   first read of a connection; the observation is judged by ObsOK. *)
EXTENDS HttpParse, Json, IOUtils

Rec == ndJsonDeserialize(IOEnv.TRACE)
VARIABLE l

BodyClass(q) == IF q.body.size = "none" THEN "no-body" ELSE q.body.size \o "-first" \o q.body.first \o (IF q.body.nul THEN "-nul" ELSE "")
NameCases(q) == IF \E i \in DOMAIN q.headers : q.headers[i].c \in {"upper", "mixed"} THEN "unusual-case" ELSE "usual-case"
Repeats(q) == IF \E i, j \in DOMAIN q.headers : i # j /\ q.headers[i].n = q.headers[j].n THEN "repeated-name" ELSE "distinct-names"
Judge(x) ==
  LET q == x.scn.req  o == x.obs IN
  IF ObsOK(q, o) THEN [ok |-> TRUE, sig |-> [class |-> "ok"]]
  ELSE [ok |-> FALSE, sig |-> [class |-> ObsClass(q, o), fault |-> q.fault,
                               detail |-> IF q.fault = "none" THEN BodyClass(q) \o "/" \o NameCases(q) \o "/" \o Repeats(q) \o "/cl-" \o q.body.clcase
                                          ELSE IF o.kind \in {"panic", "abort", "hang"} THEN o.where ELSE ""]]
TInit == l = 1
TNext == /\ l <= Len(Rec) /\ l' = l + 1
         /\ LET j == Judge(Rec[l]) IN PrintT(ToJson([t |-> "VERDICT", id |-> Rec[l].id, ok |-> j.ok, sig |-> j.sig]))
TInitAll == TInit /\ r = Empty
TNextAll == TNext /\ UNCHANGED r
=============================================================================
