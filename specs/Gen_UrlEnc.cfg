CONSTANTS
  Families = {"rt", "dec", "iter"}
  RtLen = 2
  RtLen2 = 1
  VecMax = 2
  DecLen = 1
  IterLen = 1
  IterCls = {"al", "amp", "eq", "u3", "plus"}
