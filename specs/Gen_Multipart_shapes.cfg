SPECIFICATION GSpec
CONSTANTS
  FAMILY = "shapes"
  MaxParts = 3
  MaxLen = 2
  BNDS = {"b", "-b"}
  FULLTARGETS = FALSE
INVARIANT Emit
CHECK_DEADLOCK FALSE
