SPECIFICATION TSpec
CONSTANTS
  BOUNDARY = TRUE
  RULE = "precise"
  REPAIR = FALSE
CHECK_DEADLOCK FALSE
