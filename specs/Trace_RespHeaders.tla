-------------------------- MODULE Trace_RespHeaders --------------------------
(* Trace validation for C03: every line is one operation history executed on a real Response, with the
   header block observed after every operation and the bytes sent for GET/HEAD re-parsed by the harness.
   The ideal response (layer a of RespHeaders) is stepped operation by operation and compared. *)
EXTENDS RespHeaders, Json, IOUtils

Rec == ndJsonDeserialize(IOEnv.TRACE)
VARIABLE l

NamesOf(ops) == {ops[i][2] : i \in {j \in DOMAIN ops : ops[j][1] \in {"set", "app", "rem", "cset", "capp", "crem"}}}

\* ideal states after 0..n operations
RECURSIVE Ideals(_, _, _)
Ideals(s, ops, k) == IF k > Len(ops) THEN <<>> ELSE LET s1 == IdealApply(s, ops[k]) IN <<s1>> \o Ideals(s1, ops, k + 1)

\* coarse class of the history, for signatures
RemovedThenSet(ops) == \E i, j \in DOMAIN ops : i < j /\
     \/ (ops[i][1] \in {"rem", "crem"} /\ ops[j][1] \in {"set", "app", "cset", "capp"} /\ ops[j][2] = ops[i][2])
     \/ (ops[i][1] = "drop" /\ ops[j][1] = "body")
EndsDropped(ops) == \E i \in DOMAIN ops : ops[i][1] = "drop" /\ \A j \in DOMAIN ops : j > i => ops[j][1] # "body"
HistClass(ops) == IF RemovedThenSet(ops) THEN "remove-then-set" ELSE IF EndsDropped(ops) THEN "content-dropped" ELSE "plain"

StepBad(ideals, steps) == {k \in DOMAIN steps : ~(steps[k].wf /\ HeadersOK(ideals[k], steps[k].lines) /\ steps[k].written =< steps[k].declared)}

Judge(r) ==
  IF r.obs.kind # "resp" THEN [ok |-> FALSE, sig |-> [class |-> r.obs.kind, where |-> r.obs.where, hist |-> HistClass(r.scn.ops)]]
  ELSE
  LET ops == r.scn.ops
      s0 == IdealInitFor(NamesOf(ops))
      ids == Ideals(s0, ops, 1)
      fin == IF Len(ops) = 0 THEN s0 ELSE ids[Len(ops)]
      bad == StepBad(ids, r.obs.steps)
      w == r.obs.wire
  IN IF bad # {} THEN
       LET k == CHOOSE x \in bad : \A y \in bad : x =< y
           st == r.obs.steps[k] IN
       [ok |-> FALSE, sig |-> [class |-> "header-block-after-op", hist |-> HistClass(SubSeq(ops, 1, k)),
                               what |-> IF ~st.wf THEN "malformed" ELSE IF st.written > st.declared THEN "overrun"
                                        ELSE WireClass(ids[k], "GET", [wf |-> TRUE, trailing |-> 0, status |-> ids[k].status, lines |-> st.lines, blen |-> 0, framing |-> "cl"])]]
     ELSE IF r.obs.block_written > r.obs.declared THEN [ok |-> FALSE, sig |-> [class |-> "overrun", hist |-> HistClass(ops)]]
     ELSE IF WireOK(fin, r.scn.method, w) THEN [ok |-> TRUE, sig |-> [class |-> "ok"]]
     ELSE [ok |-> FALSE, sig |-> [class |-> WireClass(fin, r.scn.method, w), hist |-> HistClass(ops), method |-> r.scn.method,
                                  status |-> ToString(fin.status)]]

TInit == l = 1
TNext == /\ l <= Len(Rec) /\ l' = l + 1
         /\ LET j == Judge(Rec[l]) IN PrintT(ToJson([t |-> "VERDICT", id |-> Rec[l].id, ok |-> j.ok, sig |-> j.sig]))
TSpec == TInit /\ [][TNext]_l
=============================================================================
