----------------------------- MODULE ExtractGen -----------------------------
(***************************************************************************)
(* Scenario emission for C07 (constant evaluation only: one JSON record    *)
(* per scenario through PrintT(ToJson(..))).                               *)
(*  int   every token string of length 1..IntLen over IntAlpha, and every  *)
(*        bound literal (MAX, MAX+1, 2^w+1, MIN, MIN-1 of every width,     *)
(*        2^64-128, 2^64+255, 10^20, 2^65) with LitPre / LitSuf around it, *)
(*        for every integer type                                           *)
(*  str   every token string of length 1..StrLen over StrAlpha for         *)
(*        String, Cow<str>, &str                                           *)
(*  bind  two-param routes (flat and split over a nested mount) x the pair *)
(*        catalogue x a small segment set per type; handlers declaring     *)
(*        fewer params than the route captures                             *)
(*  item  every signature with extractors x the decision table over query, *)
(*        Content-Type, body format, payload class, headers that is        *)
(*        relevant to the declared items                                   *)
(***************************************************************************)
EXTENDS Extract, Json

CONSTANTS IntLen, IntAlpha, LitPre, LitSuf, IntStyles,
          StrLen, StrAlpha, StrLen2, StrAlpha2,
          BindRoutes, BindDeep, FullUpTo, WithCase

\* values for the cfg files (a cfg cannot write tuples): `LitPre <- LitPreQ` ...
LitPreQ == {<<>>, <<"-">>, <<"0">>}
LitPreD == {<<>>, <<"-">>, <<"+">>, <<"0">>, <<"0", "0">>}
LitSufQ == {<<>>, <<"L">>}
LitSufD == {<<>>, <<"L">>, <<"0">>, <<"sp">>}
BindRoutesQ == {<<"P", "P">>, <<"S", "P", "P">>, <<"P", "S", "P">>}
BindRoutesD == {<<"P", "P">>, <<"S", "P", "P">>, <<"P", "S", "P">>, <<"P", "P", "S">>, <<"S", "P", "S", "P">>}

NoReq == [q |-> "absent", ct |-> [mime |-> "none", var |-> "exact"], body |-> [fmt |-> "JSON", pl |-> "empty"],
          auth |-> "absent", mf |-> "absent", ck |-> "absent"]
Scn(fam, route, mount, sig, segs, rq) ==
  [fam |-> fam, route |-> route, mount |-> mount, style |-> sig.style, ptys |-> sig.ptys, items |-> sig.items, segs |-> segs, rq |-> rq]
Emit(s) == PrintT(ToJson(s))

Strs(A, n) == UNION {[1..k -> A] : k \in 1..n}

\* ---------------------------------------------------------------- int
RouteFor(style) == IF style = "bare" THEN <<"S", "P">> ELSE <<"P", "S">>
LitSegs(dummy) == {pre \o <<l>> \o suf : pre \in LitPre, l \in LitTok, suf \in LitSuf}
EmitInt(dummy) ==
  \A ty \in IntTy : \A st \in IntStyles :
    /\ \A seg \in Strs(IntAlpha, IntLen) : Emit(Scn("int", RouteFor(st), 0, Sig(st, <<ty>>, <<>>), <<seg>>, NoReq))
    /\ \A seg \in LitSegs(dummy) : Emit(Scn("int", RouteFor(st), 0, Sig(st, <<ty>>, <<>>), <<seg>>, NoReq))

\* ---------------------------------------------------------------- str
EmitStr(dummy) ==
  \A ty \in StrTy : \A st \in {"bare", "tuple"} :
    /\ \A seg \in Strs(StrAlpha, StrLen) : Emit(Scn("str", RouteFor(st), 0, Sig(st, <<ty>>, <<>>), <<seg>>, NoReq))
    /\ \A seg \in Strs(StrAlpha2, StrLen2) : Len(seg) > StrLen => Emit(Scn("str", RouteFor(st), 0, Sig(st, <<ty>>, <<>>), <<seg>>, NoReq))

\* ---------------------------------------------------------------- bind
ISeg == IF BindDeep THEN {<<"7">>, <<"1", "9">>, <<"7", "L">>, <<"L">>, <<"-", "1">>, <<"P2W1:64">>, <<"e7">>}
        ELSE {<<"7">>, <<"1", "9">>, <<"7", "L">>, <<"-", "1">>}
SSeg == IF BindDeep THEN {<<"L">>, <<"L", "eL">>, <<"7">>, <<"sl", "L">>, <<"ff">>, <<"mb">>}
        ELSE {<<"L">>, <<"L", "eL">>, <<"7">>, <<"ff">>}
BSeg(ty) == IF ty \in IntTy THEN ISeg ELSE SSeg
\* mount = number of leading route segments registered on the outer application (0: flat)
Mounts(route) == {0} \cup {k \in 1..(Len(route) - 1) : BindDeep \/ route[k] = "P"}
EmitBind(dummy) ==
  /\ \A route \in BindRoutes : \A m \in Mounts(route) :
       /\ \A p \in PairCat : \A s1 \in BSeg(p[1]) : \A s2 \in BSeg(p[2]) :
            Emit(Scn("bind", route, m, Sig("tuple", p, <<>>), <<s1, s2>>, NoReq))
       \* fewer declared params than captured segments
       /\ \A ty \in {"u32", "String", "i8", "str"} : \A st \in {"bare", "tuple"} : \A s1 \in BSeg(ty) : \A s2 \in BSeg(ty) :
            Emit(Scn("bind", route, m, Sig(st, <<ty>>, <<>>), <<s1, s2>>, NoReq))
       /\ \A s1 \in SSeg : Emit(Scn("bind", route, m, Sig("none", <<>>, <<>>), <<s1, <<"7">>>>, NoReq))
  /\ \A route \in {<<"P">>, <<"S", "P">>, <<"P", "S">>} : \A m \in Mounts(route) :
       /\ \A s1 \in SSeg : Emit(Scn("bind", route, m, Sig("none", <<>>, <<>>), <<s1>>, NoReq))
       /\ \A ty \in ParamTy : \A s1 \in BSeg(ty) : Emit(Scn("bind", route, m, Sig("tuple", <<ty>>, <<>>), <<s1>>, NoReq))

\* ---------------------------------------------------------------- item
XsOf(sig) == {sig.items[i].x : i \in 1..Len(sig.items)}
Full(sig) == Len(sig.items) =< FullUpTo
QSet(sig)  == IF "Query" \in XsOf(sig) THEN (IF Full(sig) THEN {"absent", "emptyq"} \cup StructPl ELSE {"absent", "v1", "wrongtype"}) ELSE {"absent", "v2"}
ASet(sig)  == IF "Auth" \in XsOf(sig) THEN (IF Full(sig) THEN {"absent", "h1", "h2"} ELSE {"absent", "h1"}) ELSE {"absent"}
MfSet(sig) == IF "MaxFwd" \in XsOf(sig) THEN {"absent", "valid", "invalid"} ELSE {"absent"}
CkSet(sig) == IF "Cookie" \in XsOf(sig) THEN (IF Full(sig) THEN {"absent", "v1", "v2", "wrongtype", "missing"} ELSE {"absent", "v1", "missing"}) ELSE {"absent"}
PlOf(fmt, full) == IF fmt = "Text" THEN (IF full THEN TextPl ELSE {"v1", "nonutf8"}) ELSE (IF full THEN StructPl ELSE {"v1", "syntax"})
\* (Content-Type, body) pairs: the declared body formats, one undeclared builtin format, an unrelated type, none;
\* the body is written in a declared format, in the format the Content-Type announces, or (v1 only) in a mismatching one
OtherFmt(bx) == IF "Text" \notin bx THEN "Text" ELSE IF "JSON" \notin bx THEN "JSON"
                ELSE IF "URLEncoded" \notin bx THEN "URLEncoded" ELSE "Multipart"
MisFmt(m) == IF m = "JSON" THEN "URLEncoded" ELSE "JSON"
Vars(m) == IF m \in {"none", "XML"} THEN {"exact"} ELSE IF WithCase THEN {"exact", "params", "case"} ELSE {"exact", "params"}
CtBody(sig) ==
  LET bx == XsOf(sig) \cap BodyX
      full == Full(sig)
      mimes == {"none", "XML"} \cup bx \cup (IF bx = BodyX THEN {} ELSE {OtherFmt(bx)})
      fmts(m) == IF m \in bx THEN bx \cup {MisFmt(m)} ELSE IF m \in BodyX THEN bx \cup {m} ELSE bx
      emptyFmt(m) == IF m \in BodyX THEN m ELSE CHOOSE f \in bx : TRUE
      pls(m, v, f) == IF v = "case" THEN (IF f = m THEN {"v1"} ELSE {})
                      ELSE IF m \in bx /\ f \notin bx THEN {"v1"}
                      ELSE PlOf(f, full) \cup (IF f = emptyFmt(m) THEN {"empty"} ELSE {})
  IN IF bx = {} THEN {[ct |-> NoReq.ct, body |-> NoReq.body], [ct |-> [mime |-> "JSON", var |-> "exact"], body |-> [fmt |-> "JSON", pl |-> "v1"]]}
     ELSE UNION {UNION {UNION {{[ct |-> [mime |-> m, var |-> v], body |-> [fmt |-> f, pl |-> p]] : p \in pls(m, v, f)}
                                 : f \in fmts(m)} : v \in Vars(m)} : m \in mimes}
PSegs(ty) == IF ty \in IntTy THEN {<<"7">>, <<"7", "L">>} ELSE {<<"L", "eL">>, <<"ff">>}
SegChoices(sig) == IF Len(sig.ptys) = 0 THEN {<<>>}
                   ELSE IF Len(sig.ptys) = 1 THEN {<<s>> : s \in PSegs(sig.ptys[1])}
                   ELSE {<<s1, s2>> : s1 \in PSegs(sig.ptys[1]), s2 \in {<<"1", "9">>, <<"L">>}}
ItemRoute(sig) == IF Len(sig.ptys) = 0 THEN <<"S">> ELSE IF Len(sig.ptys) = 1 THEN <<"S", "P">> ELSE <<"P", "S", "P">>
EmitItem(dummy) ==
  \A sig \in ItemSigs : \A cb \in CtBody(sig) : \A q \in QSet(sig) : \A a \in ASet(sig) : \A mf \in MfSet(sig) : \A ck \in CkSet(sig) :
    \A segs \in SegChoices(sig) :
      Emit(Scn("item", ItemRoute(sig), 0, sig, segs,
               [q |-> q, ct |-> cb.ct, body |-> cb.body, auth |-> a, mf |-> mf, ck |-> ck]))

ASSUME EmitInt(0)
ASSUME EmitStr(0)
ASSUME EmitBind(0)
ASSUME EmitItem(0)
=============================================================================
