----------------------------- MODULE CookieGen -----------------------------
(***************************************************************************)
(* Scenario emission for C11.                                              *)
(*  mode "dec"  a Cookie header given as a jar of spelled cookies          *)
(*              [n |-> name tokens, v |-> wire tokens, q |-> quoted?];     *)
(*              a wire token is [c |-> class | "sym", e |-> "r" raw | "U"  *)
(*              %XX | "L" %xx, s |-> symbol]; decoded by the real          *)
(*              serde_cookie::from_str into catalogue type `ty`, the       *)
(*              header travelling through a real Request                   *)
(*  mode "iter" the same jar read through Request.headers.Cookies()        *)
(*  mode "set"  cookies (name tokens, value class tokens, directives)      *)
(*              given to the real response builder; the emitted lines are  *)
(*              taken from the wire and from the crate's own parser        *)
(***************************************************************************)
EXTENDS Cookie, TLC, Json

CONSTANTS Families, DecLen, IterLen, SetLen

T(c, e) == [c |-> c, e |-> e, s |-> ""]
SymTok(s, e) == [c |-> "sym", e |-> e, s |-> s]
WTok == {T(c, e) : c \in CkClasses, e \in {"U", "L"}} \cup {T(c, "r") : c \in {d \in CkClasses : CkRawClass(d)}}
WStr(n) == UNION {[1..k -> WTok] : k \in 0..n}
Few == {<<>>, <<T("al", "r")>>, <<T("eq", "r")>>, <<T("semi", "U"), T("u3", "L")>>}
Ck(n, v, q) == [n |-> n, v |-> v, q |-> q]
FN(f) == <<SymTok("name:" \o f, "r")>>
\* (the third and fourth: a cookie of some other application whose escapes do not form UTF-8 -- unknown to the target, so ignored like the others)
Extra == {Ck(FN("zz"), <<>>, "n"), Ck(FN("_ga"), <<T("al", "r"), T("pct", "U")>>, "y"),
          Ck(FN("legacy"), <<SymTok("lit:caf%E9", "r")>>, "n"), Ck(FN("lg2"), <<SymTok("lit:%FF%FE", "r")>>, "y")}
InsertAt(ps, k, x) == SubSeq(ps, 1, k) \o <<x>> \o SubSeq(ps, k + 1, Len(ps))
WithExtras(S) == S \cup UNION {{InsertAt(j, k, x) : k \in 0..Len(j), x \in Extra} : j \in S}
QS == {"y", "n"}

DecJars(ty) ==
  CASE ty = "CkA" -> {<<Ck(FN("a"), v, q)>> : v \in WStr(DecLen), q \in QS} \cup WithExtras({<<Ck(FN("a"), v, "n")>> : v \in Few})
    [] ty \in {"CkAB", "CkBA"} ->
         WithExtras({<<Ck(FN("a"), v, q), Ck(FN("b"), w, "n")>> : v \in WStr(1), w \in Few, q \in QS}
                    \cup {<<Ck(FN("b"), w, q), Ck(FN("a"), v, "n")>> : v \in WStr(1), w \in Few, q \in QS})
    [] ty = "CkOpt" ->
         WithExtras({<<Ck(FN("a"), v, "n")>> : v \in Few}
                    \cup {<<Ck(FN("a"), v, "n"), Ck(FN("o"), w, q)>> : v \in Few, w \in WStr(1), q \in QS}
                    \cup {<<Ck(FN("o"), w, q), Ck(FN("a"), v, "n")>> : v \in Few, w \in WStr(1), q \in QS})
    [] ty = "CkRen" -> WithExtras({<<Ck(FN("x-y"), v, q), Ck(FN("$t!"), w, "n")>> : v \in WStr(1), w \in Few, q \in QS}
                                  \cup {<<Ck(FN("$t!"), w, "n"), Ck(FN("x-y"), v, q)>> : v \in Few, w \in Few, q \in QS})
    [] ty = "CkNum" -> WithExtras({<<Ck(FN("n"), <<SymTok("u32:" \o s, e)>>, q), Ck(FN("a"), v, "n")>> : s \in {"0", "max"}, e \in {"r", "U"}, q \in QS, v \in Few}
                                  \cup {<<Ck(FN("a"), v, "n"), Ck(FN("n"), <<SymTok("u32:" \o s, e)>>, q)>> : s \in {"1", "max"}, e \in {"r", "L"}, q \in QS, v \in Few})
NameToks == {<<T("al", "r")>>, <<T("tp", "r")>>, <<T("al", "r"), T("tp", "r")>>, <<T("tp", "r"), T("al", "r"), T("al", "r")>>}
MapJars == {<<Ck(n, v, q)>> : n \in NameToks, v \in WStr(1), q \in QS}
           \cup {<<Ck(<<T("al", "r")>>, v, q), Ck(<<T("tp", "r")>>, w, "n")>> : v \in WStr(1), w \in Few, q \in QS}
IterJars == {<<Ck(n, v, q)>> : n \in {<<T("al", "r")>>, <<T("tp", "r"), T("al", "r")>>}, v \in WStr(IterLen), q \in QS}
            \cup {<<Ck(<<T("al", "r")>>, v, q), Ck(<<T("tp", "r")>>, w, "n")>> : v \in WStr(1), w \in Few, q \in QS}
            \cup {<<Ck(<<T("al", "r")>>, v, "n"), Ck(<<T("tp", "r")>>, w, q), Ck(<<T("al", "r"), T("al", "r")>>, u, "n")>> : v \in Few, w \in Few, u \in Few, q \in QS}

\* ------------------------------------------------------------------ Set-Cookie
DirAll == [expires : {"none", "date"}, maxage : {"none", "0", "1", "max"}, domain : {"none", "ex.com"}, path : {"none", "/", "/a b"},
           secure : QS, httponly : QS, samesite : {"none", "Strict", "Lax", "None"}]
DirFew == {d \in DirAll : \/ (d.expires = "none" /\ d.maxage = "none" /\ d.domain = "none" /\ d.path = "none" /\ d.secure = "n" /\ d.httponly = "n" /\ d.samesite = "none")
                          \/ (d.expires = "date" /\ d.maxage = "max" /\ d.domain = "ex.com" /\ d.path = "/a b" /\ d.secure = "y" /\ d.httponly = "y" /\ d.samesite = "None")
                          \/ (d.expires = "none" /\ d.maxage = "0" /\ d.domain = "none" /\ d.path = "/" /\ d.secure = "y" /\ d.httponly = "n" /\ d.samesite = "Lax")}
ValStr(n) == UNION {[1..k -> CkClasses] : k \in 0..n}
SetNames == {<<"al">>, <<"tp">>, <<"al", "tp", "al">>}
SC(n, v, d) == [n |-> n, v |-> v, d |-> d]
SetScenarios == {<<SC(<<"al">>, v, d)>> : v \in {<<>>, <<"al">>, <<"sp">>, <<"semi", "u3">>}, d \in DirAll}
                \cup {<<SC(n, v, d)>> : n \in SetNames, v \in ValStr(SetLen), d \in DirFew}
                \* values that look like percent-escapes (the concretiser makes the alphanumerics after `%` hex digits)
                \cup {<<SC(<<"al">>, v, d)>> : v \in {<<"pct", "al", "al">>, <<"al", "pct", "al", "al", "al">>, <<"pct", "al", "al", "pct", "al", "al">>,
                                                      <<"pct", "al">>, <<"al", "al", "pct">>}, d \in DirFew}
                \cup {<<SC(<<"al">>, v, d), SC(<<"tp", "al">>, w, e)>> : v \in ValStr(1), w \in {<<>>, <<"eq">>, <<"dq", "comma">>}, d \in DirFew, e \in DirFew}

DecTypes == {"CkA", "CkAB", "CkBA", "CkOpt", "CkRen", "CkNum"}
ASSUME "dec" \in Families =>
         /\ \A ty \in DecTypes : \A j \in DecJars(ty) : PrintT(ToJson([mode |-> "dec", ty |-> ty, jar |-> j]))
         /\ \A j \in MapJars : PrintT(ToJson([mode |-> "dec", ty |-> "CkMap", jar |-> j]))
ASSUME "iter" \in Families => \A j \in IterJars : PrintT(ToJson([mode |-> "iter", ty |-> "Iter", jar |-> j]))
ASSUME "set" \in Families => \A c \in SetScenarios : PrintT(ToJson([mode |-> "set", ty |-> "Set", cookies |-> c]))
=============================================================================
