SPECIFICATION Spec
CONSTANTS
  BOUNDARY = TRUE
  RULE = "precise"
  MaxP = 1
  MaxC = 1
  WithMount = TRUE
  OVERLAP <- TrueConst
INVARIANTS Dispatch
CHECK_DEADLOCK FALSE
