---------------------------- MODULE ShutdownGen ----------------------------
(***************************************************************************)
(* Scenario generation for C18: every behaviour of Shutdown (within the    *)
(* constants) up to quiescence, recorded as the sequence of scheduling     *)
(* decisions <<thread, action>>.  The harness forces the same sequence on  *)
(* the real CtrlC handler / until_interrupt poll (MODE = "proto") or on a  *)
(* real `howl` (MODE = "e2e": only the environment steps are kept).        *)
(***************************************************************************)
EXTENDS Shutdown, Sequences, Json

CONSTANT MODE
VARIABLE hist

Thread(a) == CASE a \in {"HStore", "HSwap", "HWake"} -> "H"
               [] a = "Signal"   -> "S"
               [] a = "Spurious" -> "W"
               [] a = "Arrive"   -> "C"
               [] a = "SessionDone" -> "D"
               [] OTHER -> "A"

\* in e2e mode only the environment's decisions are observable/forcible, so only they are recorded
Rec(a) == hist' = IF MODE = "e2e" /\ Thread(a) \notin {"S", "C", "D"} THEN hist ELSE Append(hist, <<Thread(a), a>>)

GInit == Init /\ hist = <<>>
St(A, n) == A /\ Rec(n)
GNext == St(Signal, "Signal")
         \/ St(HStore, "HStore")
         \/ St(HSwap, "HSwap")
         \/ St(HWake, "HWake")
         \/ St(AResume, "AResume")
         \/ St(APollAccept, "APollAccept")
         \/ St(ALoad, "ALoad")
         \/ St(APublish, "APublish")
         \/ St(ARet, "ARet")
         \/ St(ASpawn, "ASpawn")
         \/ St(ADrop, "ADrop")
         \/ St(AWgPoll, "AWgPoll")
         \/ St(Arrive, "Arrive")
         \/ St(Spurious, "Spurious")
         \/ St(SessionDone, "SessionDone")
GSpec == GInit /\ [][GNext]_<<vars, hist>>

Quiescent == ~ ENABLED Next


Emit == Quiescent =>
          PrintT(ToJson([mode |-> MODE, steps |-> hist,
                         model |-> [returned |-> Returned, interrupted |-> catch, recheck |-> RECHECK]]))
=============================================================================
