SPECIFICATION Spec
CONSTANTS
  RECHECK = TRUE
  MaxArrivals = 2
  MaxSpurious = 2
  MaxSignals = 2
INVARIANTS TypeOK NoEarlyReturn ReturnOnlyAfterInterrupt WgExact
PROPERTIES NoAcceptAfterLeave NoLostInterrupt
CHECK_DEADLOCK FALSE
