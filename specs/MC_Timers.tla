----------------------------- MODULE MC_Timers -----------------------------
(* Bounded exhaustive check of Timers.tla: for EVERY scenario of a small family (all onions of Timeout / sleeping fangs up to
   the given depth, all handler scripts, send instants, close headers, client fins) every behaviour of the step machine (b)
   satisfies the invariants and ends with exactly the history the oracle (a) allows.  MARGIN = 0: ties included. *)
EXTENDS Timers
CONSTANTS SS,        \* session deadlines
          TD,        \* durations of Timeout fangs
          PRE, POST, \* sleeps of the sleeping fangs before / after their inner part
          SD,        \* handler sleeps
          ATS,       \* send instants of the first request
          GAPS,      \* gaps to the next send
          FINS,      \* client fin: 0 = never, n = n ticks after the last send (as n - 1)
          NAPP, NSUB, NLOC, NSCRIPT, NREQ,
          MNT        \* TRUE: routes of the mounted app too

PP == PRE \X POST
Tl == {[k |-> "T", id |-> 0, d |-> d, pre |-> 0, post |-> 0] : d \in TD}
Ll(id) == {[k |-> "L", id |-> id, d |-> 0, pre |-> p[1], post |-> p[2]] : p \in PP}
RECURSIVE Onions(_, _)
\* sequences of at most n layers; logging fangs get the ids base+1, base+2, .. by position
Onions(n, base) == IF n = 0 THEN {<<>>} ELSE {<<>>} \cup {<<x>> \o r : x \in Tl \cup Ll(base + 1), r \in Onions(n - 1, base + 1)}
RECURSIVE Scripts(_)
Scripts(n) == IF n = 0 THEN {<<>>} ELSE {<<>>} \cup {<<d>> \o r : d \in SD, r \in Scripts(n - 1)}
Reqs(first) == [at : IF first THEN ATS ELSE GAPS, mnt : IF MNT THEN {0, 1} ELSE {0}, loc : Onions(NLOC, 20), script : Scripts(NSCRIPT), close : {0, 1}]
RECURSIVE Conns(_)
Conns(n) == IF n = 1 THEN {<<r>> : r \in Reqs(TRUE)}
            ELSE Conns(n - 1) \cup {c \o <<[r EXCEPT !.at = c[Len(c)].at + r.at]>> : c \in {x \in Conns(n - 1) : Len(x) = n - 1}, r \in Reqs(FALSE)}
\* close only makes a difference... everywhere; keep it.  fin is relative to the last send
WithFin(s, f) == [s EXCEPT !.fin = IF f = 0 THEN 0 ELSE s.conn[Len(s.conn)].at + f - 1]

Choose == /\ phase = "choose"
          /\ \E S \in SS, a \in Onions(NAPP, 0), b \in Onions(NSUB, 10), c \in Conns(NREQ), f \in FINS :
                LET s == WithFin([S |-> S, app |-> a, sub |-> b, conn |-> c, fin |-> 0], f) IN
                /\ (f > 0 => s.fin > 0) /\ Start(s)
Next == Choose \/ Steps
Spec == Init /\ [][Next]_vars
=============================================================================
