SPECIFICATION Spec
CONSTANTS
  MaxSegs = 1
  MaxPairs = 1
  MaxHeaders = 2
  FAMILY = "delivery"
INVARIANT Emit
CHECK_DEADLOCK FALSE
