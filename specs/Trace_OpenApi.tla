--------------------------- MODULE Trace_OpenApi ---------------------------
(* Trace validation for C15: every line is one application assembled on the real code, the facts of the
   document the real generator produced for it, and the outcome of the requests derived from the document
   and from the scenario.  One VERDICT per line when the line is inside the property, otherwise one VERDICT
   per distinct violation class (signature).  `consistent` re-checks on every line that the itemised form
   (Violations) and the property-level predicates (DocValid /\ DocMatchesApp /\ Reachable) agree. *)
EXTENDS OpenApi, Json, IOUtils

Rec == ndJsonDeserialize(IOEnv.TRACE)
VARIABLE l

Judge(r) ==
  IF r.obs.kind # "openapi" THEN [vs |-> {V(r.obs.kind, "", r.obs.where, "")}, warn |-> {}, consistent |-> TRUE]
  ELSE LET vs == Violations(r.scn.apps, r.obs) IN
       [vs |-> vs, warn |-> Warnings(r.scn.apps, r.obs), consistent |-> ((vs = {}) <=> Holds(r.scn.apps, r.obs))]
Out(id, ok, sig, j) == PrintT(ToJson([t |-> "VERDICT", id |-> id, ok |-> ok, sig |-> sig, warn |-> SetToSeq(j.warn), consistent |-> j.consistent]))
TInit == l = 1
TNext == /\ l <= Len(Rec) /\ l' = l + 1
         /\ LET j == Judge(Rec[l]) IN
            IF j.vs = {} THEN Out(Rec[l].id, TRUE, V("ok", "", "", ""), j)
            ELSE \A sg \in j.vs : Out(Rec[l].id, FALSE, sg, j)
TSpec == TInit /\ [][TNext]_l
=============================================================================
