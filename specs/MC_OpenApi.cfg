SPECIFICATION Spec
CONSTANTS
  BOUNDARY = TRUE
  RULE = "precise"
  NApps = 2
  MaxRoutes = 1
  MaxDepth = 1
  MaxMountDepth = 2
  SEGSTR <- SegA
  PNAMES = {"x", "y"}
  METHODSETS <- MsGet
  APPFANGS <- AfMc
  LOCALS <- LfMc
  SIGMODE = "mc"
  SALT = 0
  DEVS = {"handler-fewer-params"}
INVARIANTS ModelPairs ModelRightOp ModelParams DevExact ModelSecurity
CHECK_DEADLOCK FALSE
