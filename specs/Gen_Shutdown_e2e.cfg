SPECIFICATION GSpec
CONSTANTS
  RECHECK = TRUE
  MaxArrivals = 2
  MaxSpurious = 0
  MaxSignals = 1
  MODE = "e2e"
INVARIANT Emit
CHECK_DEADLOCK FALSE
