SPECIFICATION Spec
CONSTANTS
  BOUNDARY = TRUE
  RULE = "precise"
  MaxP = 2
  MaxC = 1
  WithMount = TRUE
  OVERLAP <- TrueConst
INVARIANTS Dispatch
CHECK_DEADLOCK FALSE
