----------------------------- MODULE MC_Extract -----------------------------
(***************************************************************************)
(* Bounded exhaustive check for C07 (no reference to /repo):               *)
(*  SegInv    for every param type and every token string of length        *)
(*            1..MaxLen over BaseTok, and every bound literal with a       *)
(*            prefix / suffix: the oracle is sane (one value at most,      *)
(*            canonical spellings denote themselves and must run, refusal  *)
(*            and acceptance are never both excluded) and the mechanism    *)
(*            (byte_reader prefix parse, 64-bit accumulator; or the        *)
(*            repaired whole-segment parse) stays inside it, except for    *)
(*            the deviations named in KnownDev; a deviation is only ever   *)
(*            named where the oracle demands a refusal                     *)
(*  ItemInv   for every signature of the catalogue with extractors and the *)
(*            FULL decision table (query x Content-Type x variant x body   *)
(*            format x payload class x headers): the mechanism (Content-   *)
(*            Type gate, payload presence, Option wrapper, all-or-nothing  *)
(*            call) yields an outcome the oracle allows                    *)
(*  BindInv   position binding of 1 and 2 declared params on routes with   *)
(*            as many or more captured segments                            *)
(* The scenario is chosen in Next steps from one initial state so that all *)
(* workers take part.                                                      *)
(***************************************************************************)
EXTENDS Extract

CONSTANTS MaxLen, KnownDev, FullUpTo

VARIABLE x

LitPre == {<<>>, <<"-">>, <<"+">>, <<"0">>, <<"0", "0">>}
LitSuf == {<<>>, <<"L">>, <<"0">>, <<"sp">>}
NoRq == [q |-> "absent", ct |-> [mime |-> "none", var |-> "exact"], body |-> [fmt |-> "JSON", pl |-> "empty"],
         auth |-> "absent", mf |-> "absent", ck |-> "absent"]

XsOf(sig) == {sig.items[i].x : i \in 1..Len(sig.items)}
\* signatures with more than FullUpTo extractors get a reduced table (quick tier)
Full(sig) == Len(sig.items) =< FullUpTo
Cts(sig) == IF XsOf(sig) \cap BodyX = {} THEN {[mime |-> "none", var |-> "exact"]}
            ELSE {[mime |-> "none", var |-> "exact"], [mime |-> "XML", var |-> "exact"]}
                 \cup [mime : BodyX, var : IF Full(sig) THEN {"exact", "params", "case"} ELSE {"exact", "params"}]
Bodies(sig) == IF XsOf(sig) \cap BodyX = {} THEN {NoRq.body}
               ELSE {b \in [fmt : BodyX, pl : StructPl \cup TextPl \cup {"empty"}] :
                       /\ b.pl = "empty" \/ (IF b.fmt = "Text" THEN b.pl \in TextPl ELSE b.pl \in StructPl)
                       /\ Full(sig) \/ b.pl \in {"v1", "syntax", "nonutf8", "empty"}}
HdrReqs(sig) == [q : IF "Query" \in XsOf(sig) THEN (IF Full(sig) THEN {"absent", "emptyq"} \cup StructPl ELSE {"absent", "v1", "wrongtype"}) ELSE {"absent"},
              auth : IF "Auth" \in XsOf(sig) THEN (IF Full(sig) THEN {"absent", "h1", "h2"} ELSE {"absent", "h1"}) ELSE {"absent"},
              mf : IF "MaxFwd" \in XsOf(sig) THEN {"absent", "valid", "invalid"} ELSE {"absent"},
              ck : IF "Cookie" \in XsOf(sig) THEN (IF Full(sig) THEN {"absent"} \cup (StructPl \ {"syntax", "extra"}) ELSE {"absent", "v1", "missing"}) ELSE {"absent"}]
PSegs(ty) == IF ty \in IntTy THEN {<<"7">>, <<"7", "L">>, <<"-", "0">>, <<"P2W1:64">>} ELSE {<<"L", "eL">>, <<"ff">>}
SegChoices(ptys) == IF Len(ptys) = 0 THEN {<<>>}
                    ELSE IF Len(ptys) = 1 THEN {<<s>> : s \in PSegs(ptys[1])}
                    ELSE {<<s1, s2>> : s1 \in PSegs(ptys[1]), s2 \in PSegs(ptys[2])}
MkScn(sig, segs, rq) == [ptys |-> sig.ptys, items |-> sig.items, segs |-> segs, rq |-> rq]

Init == x = [t |-> "init"]
Next ==
  \/ /\ x.t = "init"
     /\ \/ \E ty \in ParamTy : x' = [t |-> "seg", ty |-> ty, toks |-> <<>>, lit |-> FALSE]
        \/ \E sig \in ItemSigs : x' = [t |-> "sig", sig |-> sig]
        \/ \E sig \in ParamSigs : Len(sig.ptys) > 0 /\ x' = [t |-> "psig", sig |-> sig]
  \/ /\ x.t = "seg" /\ ~x.lit /\ Len(x.toks) < MaxLen
     /\ \E tk \in BaseTok : x' = [x EXCEPT !.toks = Append(@, tk)]
  \/ /\ x.t = "seg" /\ x.toks = <<>>
     /\ \E pre \in LitPre : \E lt \in LitTok : \E suf \in LitSuf : x' = [x EXCEPT !.toks = pre \o <<lt>> \o suf, !.lit = TRUE]
  \* two levels (headers and query first, then Content-Type x body x segments) so that no single worker owns a whole signature
  \/ /\ x.t = "sig"
     /\ \E h \in HdrReqs(x.sig) : x' = [t |-> "sig2", sig |-> x.sig, h |-> h]
  \/ /\ x.t = "sig2"
     /\ \E ct \in Cts(x.sig) : \E b \in Bodies(x.sig) : \E segs \in SegChoices(x.sig.ptys) :
          x' = [t |-> "item", scn |-> MkScn(x.sig, segs, [q |-> x.h.q, ct |-> ct, body |-> b, auth |-> x.h.auth, mf |-> x.h.mf, ck |-> x.h.ck])]
  \/ /\ x.t = "psig"
     /\ \E segs \in SegChoices(x.sig.ptys) :
          \/ x' = [t |-> "bind", scn |-> MkScn(x.sig, segs, NoRq)]
          \/ Len(segs) = 1 /\ \E extra \in {<<"1", "9">>, <<"L">>} :
               \/ x' = [t |-> "bind", scn |-> MkScn(x.sig, segs \o <<extra>>, NoRq)]
Spec == Init /\ [][Next]_x

Unspecified == [ok |-> TRUE, val |-> Val("unspecified", <<>>)]
SegInv == (x.t = "seg" /\ x.toks # <<>>) =>
  LET rs == ParamResults(x.ty, x.toks)
      m == ImplParam(x.ty, x.toks)
      res == IF m.dev = "wrap" THEN Unspecified ELSE m.res IN
  /\ rs # {}
  /\ \A r1 \in rs : \A r2 \in rs : (r1.ok /\ r2.ok) => r1 = r2
  /\ (x.ty \in IntTy /\ IntClass(x.ty, x.toks) = "canonical") => rs = {Ok(Val("int", SegChars(x.toks)))}
  /\ (x.ty \in IntTy /\ IntClass(x.ty, x.toks) \in {"not-an-integer", "out-of-range", "not-utf8"}) => rs = {Fail}
  /\ (x.ty \in StrTy /\ ~SegEsc(x.toks) /\ ~SegInvalid(x.toks)) => rs = {Ok(Val("str", SegChars(x.toks)))}
  /\ (m.dev \notin KnownDev) => res \in rs
  /\ (m.dev # "") => (x.ty \in IntTy /\ IntClass(x.ty, x.toks) \in {"not-an-integer", "out-of-range"})
  /\ REPAIRED => m.dev = ""

OutInv(scn) ==
  LET m == ImplOutcome(scn) IN
  /\ ResultSeqs(scn) # {}
  /\ ~(MustRun(scn) /\ MustRefuse(scn))
  /\ (m.devs \cap KnownDev = {} /\ "wrap" \notin m.devs) => OutcomeOK(scn, m.o)
  /\ (m.devs \subseteq KnownDev)
  /\ MustRefuse(scn) => ~OutcomeOK(scn, [ran |-> TRUE, vals |-> m.o.vals])
ItemInv == x.t = "item" => OutInv(x.scn)
BindInv == x.t = "bind" => OutInv(x.scn)
=============================================================================
