SPECIFICATION MCSpec
CONSTANTS
  DELETE_MODE = "swap-remove"
  COMPLETE_ZERO = TRUE
  STRIP_TE = TRUE
  MaxOps = 4
INVARIANTS StepOK SizeExact NoOverrun SizeExactAfterFinish Refines
CHECK_DEADLOCK FALSE
