---------------------------- MODULE DirMountGen ----------------------------
(***************************************************************************)
(* Scenario space of C19: every directory tree of at most MaxFiles files   *)
(* over the slots of the chosen PROFILE (plus a few larger seed trees),    *)
(* every omit-extension setting, every mount route; and for each of them   *)
(* the request set Requests(scn).                                          *)
(*                                                                         *)
(*  MC_DirMount*.cfg : INVARIANT Refines — layer (b) against layer (a) on  *)
(*                     every request of every scenario, deviations named.  *)
(*  Gen_DirMount*.cfg: INVARIANT Emit — prints one scenario per state.     *)
(***************************************************************************)
EXTENDS DirMount, SequencesExt, Json

CONSTANTS PROFILE,          \* "quick" | "deep"
          MaxFiles,
          KnownDeviations,  \* names of deviations of (b) from (a) that are accepted by the MC run
          MOUNT_SET,        \* "all" (/, /pub, /pub/static) | "pub" (/pub only)
          EMIT_MIN          \* Emit prints only trees with at least this many files (smaller ones come from another profile)

VARIABLES tree, omit, mount
gvars == <<tree, omit, mount>>

\* ------------------------------------------------------------------ vocabulary
n_index == INDEX
n_a_html == <<"a",".","h","t","m","l">>
n_a_js == <<"a",".","j","s">>
n_b_txt == <<"b",".","t","x","t">>
n_data_json == <<"d","a","t","a",".","j","s","o","n">>
n_e_css == <<"e",".","c","s","s">>
n_p_png == <<"p",".","p","n","g">>
n_ab_txt == <<"a","b",".","t","x","t">>
n_a_min_js == <<"a",".","m","i","n",".","j","s">>
n_index_js == <<"i","n","d","e","x",".","j","s">>
n_reindex == <<"r","e">> \o INDEX                            \* ends with, but is not, the index name
n_a_js_html == <<"a",".","j","s",".","h","t","m","l">>      \* two extensions: only the last one is omitted (once)
n_w_html_js == <<"w",".","h","t","m","l",".","j","s">>
d_sub == <<"s","u","b">>
d_deep == <<"d","e","e","p">>
d_djs == <<"d",".","j","s">>
d_a == <<"a">>
s_pub == <<"p","u","b">>
s_static == <<"s","t","a","t","i","c">>
e_js == <<"j","s">>
e_json == <<"j","s","o","n">>

F(dir, name, cls) == [path |-> Append(dir, name), cls |-> cls]

Dirs3 == {<<>>, <<d_sub>>, <<d_sub, d_deep>>}
NamesQ == {<<n_index, "text">>, <<n_a_html, "text">>, <<n_a_js, "text">>, <<n_b_txt, "text">>,
           <<n_data_json, "bin">>, <<n_e_css, "empty">>}
SlotsQuick == {F(d, n[1], n[2]) : d \in Dirs3, n \in NamesQ}
SlotsDeep == SlotsQuick
             \cup {F(d, n[1], n[2]) : d \in {<<d_djs>>, <<d_a>>}, n \in {<<n_index, "text">>, <<n_b_txt, "text">>}}
             \cup {F(<<>>, n_ab_txt, "text"), F(<<>>, n_a_min_js, "text"), F(<<>>, n_p_png, "big"), F(<<>>, n_index_js, "text"),
                   F(<<d_sub>>, n_p_png, "bin")}
Slots == IF PROFILE = "quick" THEN SlotsQuick ELSE SlotsDeep

\* larger trees that every profile includes (they are not extended)
SeedTrees == {
  {F(<<>>, n_index, "text"), F(<<>>, n_a_html, "text"), F(<<>>, n_a_js, "text"), F(<<d_sub>>, n_index, "text"),
   F(<<d_sub, d_deep>>, n_data_json, "bin"), F(<<>>, n_e_css, "empty"), F(<<d_djs>>, n_index, "text")},
  {F(<<>>, n_index, "text"), F(<<d_sub>>, n_index, "empty"), F(<<d_sub, d_deep>>, n_index, "text"),
   F(<<d_sub>>, n_b_txt, "text"), F(<<d_sub, d_deep>>, n_b_txt, "text"), F(<<>>, n_p_png, "big")},
  {F(<<>>, n_a_html, "text"), F(<<d_a>>, n_index, "text"), F(<<>>, n_b_txt, "text")},
  {F(<<>>, n_a_js, "text"), F(<<>>, n_ab_txt, "text"), F(<<>>, n_a_min_js, "text"), F(<<>>, n_a_html, "empty"),
   F(<<d_a>>, n_b_txt, "text")},
  {F(<<d_djs>>, n_index, "text"), F(<<d_djs>>, n_b_txt, "text"), F(<<>>, n_index_js, "text"), F(<<>>, n_data_json, "bin")},
  {F(<<>>, n_a_js_html, "text"), F(<<>>, n_b_txt, "text"), F(<<d_sub>>, n_w_html_js, "text")},
  {F(<<d_sub>>, n_reindex, "text"), F(<<>>, n_b_txt, "text"), F(<<d_a>>, n_reindex, "text"), F(<<d_a>>, n_index, "empty"), F(<<>>, n_reindex, "text")}
}

OmitChoices == {<<>>, <<HTML>>, <<HTML, e_js>>} \cup (IF PROFILE = "quick" THEN {} ELSE {<<e_js>>, <<e_json, HTML>>})
MountChoices == IF MOUNT_SET = "all" THEN {<<>>, <<s_pub>>, <<s_pub, s_static>>} ELSE {<<s_pub>>}

GInit == /\ tree = {} /\ omit \in OmitChoices /\ mount \in MountChoices
\* a directory and a file cannot have the same name
Compatible(t, f) == /\ \A g \in t : g.path # f.path
                    /\ \A g \in t : ~(Len(g.path) > Len(f.path) /\ SubSeq(g.path, 1, Len(f.path)) = f.path)
                    /\ \A g \in t : ~(Len(f.path) > Len(g.path) /\ SubSeq(f.path, 1, Len(g.path)) = g.path)
AddFile == /\ tree \notin SeedTrees /\ Cardinality(tree) < MaxFiles
           /\ \E f \in Slots : Compatible(tree, f) /\ tree' = tree \cup {f}
           /\ UNCHANGED <<omit, mount>>
\* (seed trees are entered by a step, not as initial states: initial-state evaluation is single-threaded)
PickSeed == tree = {} /\ tree' \in SeedTrees /\ UNCHANGED <<omit, mount>>
GSpec == GInit /\ [][AddFile \/ PickSeed]_gvars

\* ------------------------------------------------------------------ requests
R(m, kind, path) == [m |-> m, kind |-> kind, path |-> path]
T_x == <<"x">>
T_sl == <<"/">>
T_dd == <<".", ".">>
T_edd == <<"%","2","e","%","2","e">>
T_edD == <<"%","2","E","%","2","E">>
T_mdd == <<".","%","2","e">>
T_esl == <<"%","2","f">>
T_esL == <<"%","2","F">>
T_zz == <<"z","z">>
T_q == <<"?","v","=","1">>
T_index == <<"i","n","d","e","x">>
T_outside == <<"o","u","t","s","i","d","e",".","t","x","t">>
T_rootx == <<"r","o","o","t","x">>
T_secret == <<"s","e","c","r","e","t",".","t","x","t">>
T_roottxt == <<"r","o","o","t",".","t","x","t">>

\* "%hh" for the first character of a name (only the letters the profiles use)
PctOf(c) == CASE c = "a" -> <<"%","6","1">> [] c = "b" -> <<"%","6","2">> [] c = "d" -> <<"%","6","4">>
              [] c = "e" -> <<"%","6","5">> [] c = "i" -> <<"%","6","9">> [] c = "p" -> <<"%","7","0">>
              [] OTHER -> <<c>>
UpOf(c) == CASE c = "a" -> "A" [] c = "b" -> "B" [] c = "d" -> "D" [] c = "e" -> "E" [] c = "i" -> "I" [] c = "p" -> "P" [] OTHER -> c

\* text of "<segs>/<tail>" ("/tail" when segs is empty)
Under(segs, tail) == Slashed(segs) \o T_sl \o tail

ReqsOfFile(scn, f) ==
  LET own == OwnRoute(scn, f)
      full == FullRoute(scn, f)
      base == scn.mount \o FileDir(f)
      name == FileName(f)
      short == OmitName(name, scn.omit)
  IN { R("GET", "own", own), R("GET", "full", full),
       R("GET", "more", own \o T_x), R("GET", "more", full \o T_x),
       R("GET", "less", DropLast(full, 1)),
       R("GET", "slash", own \o T_sl), R("GET", "slash", full \o T_sl), R("GET", "slash2", own \o T_sl \o T_sl),
       R("GET", "query", own \o T_q),
       R("GET", "pct-unreserved", Under(base, PctOf(short[1]) \o Tail(short))),
       R("GET", "upper", Under(base, <<UpOf(short[1])>> \o Tail(short))),
       R("GET", "dslash", Slashed(base) \o T_sl \o T_sl \o short), R("GET", "dslash", T_sl \o own),
       R("GET", "dot", Under(base, <<".">> \o T_sl \o short)),
       R("GET", "dotdot", Under(base, T_zz \o T_sl \o T_dd \o T_sl \o short)),
       R("GET", "enc-dotdot", Under(base, T_zz \o T_sl \o T_edd \o T_sl \o short)),
       R("GET", "enc-dotdot", Under(base, T_zz \o T_sl \o T_edD \o T_sl \o name)),
       R("GET", "enc-dotdot", Under(base, T_zz \o T_sl \o T_mdd \o T_sl \o short)),
       R("HEAD", "own", own), R("HEAD", "more", own \o T_x), R("POST", "own", own), R("POST", "more", own \o T_x),
       R("HEAD", "full", full) }
     \cup (IF Len(own) > 1 THEN {R("GET", "less", DropLast(own, 1))} ELSE {})
     \cup (IF base # <<>> THEN
             { R("GET", "enc-slash", Slashed(base) \o T_esl \o short), R("GET", "enc-slash", Slashed(base) \o T_esL \o name),
               R("GET", "dotdot", Under(base, T_dd \o T_sl \o LastOf(base) \o T_sl \o short)),
               R("GET", "enc-dotdot", Under(base, T_edd \o T_sl \o LastOf(base) \o T_sl \o short)) }
           ELSE {})

DirsOf(scn) == UNION {{SubSeq(scn.files[i].path, 1, k) : k \in 0..(Len(scn.files[i].path) - 1)} : i \in DOMAIN scn.files} \cup {<<>>}
ReqsOfDir(scn, d) ==
  LET r == RouteText(scn.mount \o d) IN
  { R("GET", "dir", r), R("GET", "dir-slash", r \o T_sl), R("HEAD", "dir", r), R("POST", "dir", r),
    R("GET", "index-own", Under(scn.mount \o d, T_index)), R("GET", "index-full", Under(scn.mount \o d, INDEX)),
    R("GET", "more", Under(scn.mount \o d, T_zz)) }
  \cup (IF scn.mount \o d # <<>> THEN {R("GET", "less", DropLast(r, 1)), R("GET", "more", r \o T_x),
                                       R("GET", "dirname-stripped", RouteText(FrontOf(scn.mount \o d) \o <<OmitName(LastOf(scn.mount \o d), scn.omit)>>))}
        ELSE {})

ReqsOutside(scn) ==
  { R("GET", "outside", Under(scn.mount, T_dd \o T_sl \o T_outside)),
    R("GET", "outside", Under(scn.mount, T_outside)),
    R("GET", "outside", Under(scn.mount, T_edd \o T_sl \o T_outside)),
    R("GET", "outside", Under(scn.mount, T_dd \o T_esl \o T_outside)),
    R("GET", "outside", Under(scn.mount, T_dd \o T_sl \o T_rootx \o T_sl \o T_secret)),
    R("GET", "outside", Under(scn.mount, T_roottxt)),
    R("GET", "outside", Under(<<>>, T_dd \o T_sl \o T_dd \o T_sl \o T_outside)),
    R("HEAD", "outside", Under(scn.mount, T_dd \o T_sl \o T_outside)),
    R("GET", "root", T_sl) }
  \cup {R("GET", "mount-prefix", RouteText(SubSeq(scn.mount, 1, k))) : k \in 0..(Len(scn.mount) - 1)}

Requests(scn) == UNION {ReqsOfFile(scn, scn.files[i]) : i \in DOMAIN scn.files}
                 \cup UNION {ReqsOfDir(scn, d) : d \in DirsOf(scn)}
                 \cup ReqsOutside(scn)

\* ------------------------------------------------------------------ the scenario of a state
Base == [mount |-> mount, omit |-> omit, files |-> SetToSeq(tree), late |-> <<>>]
Scn == [Base EXCEPT !.files = SetToSeq(tree)]

\* (b) against (a) ------------------------------------------------------------
\* the implementation refuses a tree that (a) wants mounted only through a named deviation
RefusalDeviation(scn) ==
  IF ImplMount(scn) = "mounted" \/ MayRefuse(scn) THEN "none"
  ELSE IF \E i \in FilesIx(scn) : /\ IsIndex(scn.files[i]) /\ FileDir(scn.files[i]) # <<>>
                                   /\ Omitted(LastOf(FileDir(scn.files[i])), scn.omit)
       THEN "dirname-extension-stripped"
  ELSE "UNEXPLAINED"
Accepted == KnownDeviations \cup {"none"}
Refines == LET scn == Scn IN
  /\ RefusalDeviation(scn) \in Accepted
  /\ (ImplMount(scn) = "mounted") => \A rq \in Requests(scn) : ImplDeviation(scn, rq) \in Accepted

\* scenario emission ----------------------------------------------------------
ModelOf(scn, rq) == IF ImplMount(scn) = "mounted" THEN ImplResp(scn, rq) ELSE [status |-> 0, file |-> 0, framed |-> "none"]
Emit == (tree # {} /\ Cardinality(tree) >= EMIT_MIN) =>
  LET scn == Scn
      rqs == SetToSeq(Requests(scn))
  IN PrintT(ToJson([mount |-> scn.mount, omit |-> scn.omit, files |-> scn.files, late |-> <<>>, emptydirs |-> <<>>,
                    salt |-> Cardinality(tree) + Len(omit) + 2 * Len(mount),
                    nt |-> NonTrivial(scn), mmount |-> ImplMount(scn),
                    reqs |-> [k \in DOMAIN rqs |-> [m |-> rqs[k].m, kind |-> rqs[k].kind, path |-> rqs[k].path,
                                                    ms |-> ModelOf(scn, rqs[k]).status, mf |-> ModelOf(scn, rqs[k]).file]]]))
=============================================================================
