---------------------------- MODULE Trace_Timers ----------------------------
(* One VERDICT per observation line {"id","scn","obs"} of `vh run timers`: the timed event lists observed on the real
   Session::manage (server side: H4 hooks + fang / handler log points; client side: responses and end of stream) must be the
   lists the oracle Expected(sc0) of Timers.tla allows — same events in the same order, every instant within TOL ms of the
   instant the specification gives it — and the history properties of Timers.tla are evaluated on the observed lists too.
   The scenario must be Robust (every scripted instant >= MARGIN ticks away from every deadline it is compared with), so no
   verdict depends on a timing inside the tolerance; `noise` reports whether the harness's metronome saw the runtime thread
   wake late by more than JITMAX ms during the run (the driver repeats such runs instead of judging them).
   A line with obs.kind = "probe" is not an observation: the answer says whether the scenario is Robust, and its class. *)
EXTENDS Timers, Json, IOUtils

CONSTANTS TOL,      \* ms: tolerated distance between an observed instant and the specified one
          JITMAX    \* ms: metronome lateness above which a run is called noisy

Rec == ndJsonDeserialize(IOEnv.TRACE)
VARIABLE l

Min2(x, y) == IF x =< y THEN x ELSE y
Norm(ev) == [j \in DOMAIN ev |-> IF ev[j].e = "eof" THEN [ev[j] EXCEPT !.b = 0] ELSE ev[j]]     \* a reset is an end of stream too
SameKind(x, y) == x.e = y.e /\ x.a = y.a /\ x.b = y.b
\* 0 if the two lists agree event by event, else the first position where they do not
FirstDiff(o, e) == LET n == Min2(Len(o), Len(e)) IN
                   IF \E j \in 1..n : ~SameKind(o[j], e[j]) THEN CHOOSE j \in 1..n : ~SameKind(o[j], e[j]) /\ \A m \in 1..(j - 1) : SameKind(o[m], e[m])
                   ELSE IF Len(o) # Len(e) THEN n + 1 ELSE 0
At(s, j) == IF j \in DOMAIN s THEN s[j].e ELSE "nothing"
\* first position whose instant is further than TOL from the specified one (lists of equal shape), else 0
FirstLate(o, e, U) == IF \E j \in DOMAIN o : Abs(o[j].t - U * e[j].t) > TOL THEN CHOOSE j \in DOMAIN o : Abs(o[j].t - U * e[j].t) > TOL /\ \A m \in 1..(j - 1) : Abs(o[m].t - U * e[m].t) =< TOL
                      ELSE 0

\* the class of a scenario: per request B(ody) T(imeout) C(ut by the session deadline) -(never parsed), and how the session ends
RECURSIVE ReqShapes(_, _, _, _)
ReqShapes(n, q, nresp, x) ==
  IF q > n THEN "" ELSE
  (IF q =< nresp THEN (IF Resps(x.cl)[q].b > 0 THEN "B" ELSE "T") ELSE IF q =< Len(ParsedAt(x.sv)) THEN "C" ELSE "-") \o ReqShapes(n, q + 1, nresp, x)
NTimeouts(ls) == Len(SelectSeq(ls, LAMBDA y : y.k = "T"))
ShapeOf(sc, x) == ReqShapes(Len(sc.conn), 1, Len(Resps(x.cl)), x) \o "/"
                   \o (IF Has(x.sv, "close") THEN "fin" ELSE IF Has(x.sv, "sfire") THEN "deadline" ELSE "close")
                   \o (IF \E j \in DOMAIN sc.conn : NTimeouts(OnionOf(sc, sc.conn[j])) >= 2 THEN "/nested" ELSE "")
                   \o (IF \E j \in DOMAIN sc.conn : \E m \in DOMAIN OnionOf(sc, sc.conn[j]) : OnionOf(sc, sc.conn[j])[m].k = "T" /\ OnionOf(sc, sc.conn[j])[m].d = 0 THEN "/zero" ELSE "")

Judge(r) ==
  LET sc0 == r.scn
      x == Expected(sc0)
      shape == ShapeOf(sc0, x)
  IN IF r.obs.kind = "probe" THEN [ok |-> Robust(sc0), sig |-> [class |-> "probe", shape |-> shape, noise |-> "-"], dev |-> 0]
     ELSE IF r.obs.kind # "timers" THEN [ok |-> FALSE, sig |-> [class |-> "kind:" \o r.obs.kind, shape |-> shape, noise |-> "-"], dev |-> -1]
     ELSE
       LET U == r.obs.unit
           esv == Visible(x.sv)
           ecl == x.cl
           osv == r.obs.sv
           ocl == Norm(SelectSeq(r.obs.cl, LAMBDA y : y.e \in {"resp", "eof", "still-open"}))
           noise == IF r.obs.jit > JITMAX THEN "noisy" ELSE "quiet"
           ds == FirstDiff(osv, esv)
           dc == FirstDiff(ocl, ecl)
           cls == IF ~Robust(sc0) THEN "tool:scenario-not-robust"
                  ELSE IF ds # 0 THEN "server:expected-" \o At(esv, ds) \o "-observed-" \o At(osv, ds)
                  ELSE IF dc # 0 THEN "client:expected-" \o At(ecl, dc) \o "-observed-" \o At(ocl, dc)
                  ELSE IF r.obs.late # <<>> THEN "ran-after-the-end:" \o r.obs.late[1].e
                  ELSE IF FirstLate(osv, esv, U) # 0 THEN "server-instant:" \o osv[FirstLate(osv, esv, U)].e
                  ELSE IF FirstLate(ocl, ecl, U) # 0 THEN "client-instant:" \o ocl[FirstLate(ocl, ecl, U)].e
                  \* the history properties on what was observed (implied by the equalities above; kept as a cross-check of the oracle)
                  ELSE IF ~NothingAfterCancel(osv) THEN "P2-ran-after-cancel"
                  ELSE IF ~InOrder(osv, ocl) THEN "P5-order"
                  ELSE IF ~OutlivedAnswered500(osv, ocl) THEN "P3-outlived-not-500"
                  ELSE IF ~BodyOnlyInTime(osv, ocl) THEN "P1-body-late"
                  ELSE IF ~(NoByteAfterDeadline(ocl, U * sc0.S, TOL) /\ EndsByDeadline(osv, U * sc0.S, TOL)) THEN "P4-after-session-deadline"
                  ELSE "ok"
           \* the largest distance (ms) between an observed instant and the specified one: the measured jitter of this run
           devs == IF ds = 0 /\ dc = 0 THEN {Abs(osv[j].t - U * esv[j].t) : j \in DOMAIN osv} \cup {Abs(ocl[j].t - U * ecl[j].t) : j \in DOMAIN ocl} ELSE {-1}
           dev == CHOOSE d \in devs : \A d2 \in devs : d2 =< d
       IN [ok |-> cls = "ok", sig |-> [class |-> cls, shape |-> shape, noise |-> noise], dev |-> dev]

TInit == l = 1 /\ Init           \* the machine's variables are not used here: they stay in their initial state
TNext == /\ l =< Len(Rec) /\ l' = l + 1 /\ UNCHANGED vars
         /\ LET j == Judge(Rec[l]) IN PrintT(ToJson([t |-> "VERDICT", id |-> Rec[l].id, ok |-> j.ok, sig |-> j.sig, dev |-> j.dev]))
TSpec == TInit /\ [][TNext]_<<l, vars>>
=============================================================================
