------------------------------- MODULE MC_Sse -------------------------------
(***************************************************************************)
(* Bounded exhaustive checks for C17.                                      *)
(*                                                                         *)
(*  MC_Sse.cfg / MC_Sse_deep.cfg  (SPECIFICATION Spec, module Sse)         *)
(*     every script of <= MaxScript steps x every wake schedule:           *)
(*     PrefixInv, QueueInv, DoneInv, Terminates, EveryPushDelivered,       *)
(*     AllDelivered under fair waking                                      *)
(*  MC_Sse_nowaker.cfg, MC_Sse_nodrain.cfg: non-vacuity (must fail)        *)
(*  MC_Sse_frame.cfg / _deep  (SPECIFICATION FSpec)                        *)
(*     every message of <= MaxTok tokens over Toks, every pair of messages *)
(*     of <= MaxPairTok tokens:                                            *)
(*       WantedOK   ParseES(FrameWanted(..)) is exactly the messages       *)
(*       ImplOK     ParseES(FrameImpl(..)) is exactly the messages (the    *)
(*                  encoder as repaired)                                   *)
(*       ImplDev    ParseES(FrameOriginal(..)), the encoder before the     *)
(*                  repair, is exactly the messages or the named deviation *)
(*                  "lone-cr" applies                                      *)
(*       DevSharp   and when it applies the decode IS wrong (the finding's *)
(*                  class is exact, not an over-approximation)             *)
(* The choice is a Next step from one initial state (two levels) so that   *)
(* all workers help.                                                       *)
(***************************************************************************)
EXTENDS Sse

CONSTANTS MaxTok, MaxPairTok, Toks

VARIABLE x
Msgs(n) == UNION {[1..k -> Toks] : k \in 0..n}

FInit == InitWith(<<>>) /\ x = [t |-> "init"]
Shard == \/ \E t \in Toks : x' = [t |-> "sh", a |-> t]
         \/ \E m \in Msgs(MaxPairTok) : x' = [t |-> "shp", m |-> m]
         \/ x' = [t |-> "msgs", ms |-> << <<>> >>]
Pick == \/ /\ x.t = "sh"
           /\ \E r \in Msgs(MaxTok - 1) : x' = [t |-> "msgs", ms |-> << <<x.a>> \o r >>]
        \/ /\ x.t = "shp"
           /\ \E m2 \in Msgs(MaxPairTok) : x' = [t |-> "msgs", ms |-> <<x.m, m2>>]
FNext == /\ UNCHANGED vars
         /\ \/ x.t = "init" /\ Shard
            \/ Pick
FSpec == FInit /\ [][FNext]_<<vars, x>>

WantedOK == x.t = "msgs" => Delivers(WireOf(FrameWanted, x.ms), x.ms)
ImplOK   == x.t = "msgs" => Delivers(WireOf(FrameImpl, x.ms), x.ms)
ImplDev  == x.t = "msgs" => (Delivers(WireOf(FrameOriginal, x.ms), x.ms) \/ CrClass(x.ms) = "lone-cr")
DevSharp == x.t = "msgs" => (CrClass(x.ms) = "lone-cr" => ~Delivers(WireOf(FrameOriginal, x.ms), x.ms))
\* Normalize is idempotent and removes every CR
NormOK == x.t = "msgs" => \A i \in 1..Len(x.ms) :
            LET n == Normalize(Atoms(x.ms[i])) IN ~HasCR(n) /\ Normalize(n) = n

\* the example of DESIGN section 5: before the repair `x CR event:y` was sent as `data: x CR event:y`, i.e. an injected `event` field
ASSUME Outcome(FrameOriginal(Atoms(<<"x", "CR", "EV", "y">>)), << <<"x", "CR", "EV", "y">> >>) = "field-injected"
ASSUME Outcome(FrameOriginal(Atoms(<<"x", "CR", "y">>)), << <<"x", "CR", "y">> >>) = "data-altered"
ASSUME Outcome(FrameOriginal(Atoms(<<"x", "CR", "CR", "DATA", "y">>)), << <<"x", "CR", "CR", "DATA", "y">> >>) = "extra-event"
ASSUME Outcome(FrameImpl(Atoms(<<"x", "CRLF", "y">>)), << <<"x", "CRLF", "y">> >>) = "ok"
ASSUME Outcome(FrameWanted(Atoms(<<"x", "CR", "EV", "y">>)), << <<"x", "CR", "EV", "y">> >>) = "ok"
ASSUME Outcome(FrameImpl(Atoms(<<"x", "CR", "EV", "y">>)), << <<"x", "CR", "EV", "y">> >>) = "ok"
\* an empty message is an event with empty data, not nothing
ASSUME ParseES(FrameImpl(<<>>)).out = <<[data |-> <<>>, type |-> <<>>, id |-> <<>>]>>
=============================================================================
