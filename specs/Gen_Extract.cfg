CONSTANTS
  REPAIRED = TRUE
  IntLen = 3
  IntAlpha = {"0", "7", "9", "-", "+", "L", "sp", "e7"}
  LitPre <- LitPreQ
  LitSuf <- LitSufQ
  IntStyles = {"bare"}
  StrLen = 2
  StrAlpha = {"L", "7", "-", "+", "eL", "sp", "mb", "sl", "pc", "ff", "c3", "bz"}
  StrLen2 = 3
  StrAlpha2 = {"L", "eL", "mb", "ff"}
  BindRoutes <- BindRoutesQ
  BindDeep = FALSE
  FullUpTo = 2
  WithCase = TRUE
