------------------------------- MODULE Extract -------------------------------
(***************************************************************************)
(* C07 - typed path, query and body extraction delivers exact values or    *)
(* stops the handler.                                                      *)
(*                                                                         *)
(* Layer (a), the oracle: Results(scn) gives, for every declared item of a *)
(* handler signature (path params first, then extractors), the SET of      *)
(* results the property text allows for the request of the scenario:       *)
(* `Ok(value)` and / or `Fail`.  OutcomeOK(scn, o) lifts that to the       *)
(* observation "handler ran with these values" / "error response, handler  *)
(* not run".  Where the text leaves a choice the set has two elements.     *)
(*                                                                         *)
(* Layer (b), the design model: Impl*(..) follows ohkami's mechanism       *)
(* (byte_reader prefix parse with a 64-bit accumulator, percent_decode_utf8*)
(* FromBody Content-Type gate, Option wrapper, IntoHandler all-or-nothing) *)
(* and names its deviations ("prefix", "wrap").  MC_Extract checks that    *)
(* (b) stays inside (a) except for the named deviations, and that the      *)
(* repaired mechanism (REPAIRED = TRUE) has none.                          *)
(*                                                                         *)
(* Text is modelled as sequences of abstract characters; integers are      *)
(* never built (TLC has 32-bit ints): values are canonical decimal digit   *)
(* sequences compared by length, then lexicographically.                   *)
(***************************************************************************)
EXTENDS Naturals, Sequences, FiniteSets, TLC

CONSTANT REPAIRED      \* BOOLEAN: model the proposed whole-segment checked parse instead of byte_reader

(* ======================================================================= *)
(* 1. digit sequences                                                      *)
(* ======================================================================= *)
DigitCh == {"0", "1", "2", "3", "4", "5", "6", "7", "8", "9"}
DV(c) == CASE c = "0" -> 0 [] c = "1" -> 1 [] c = "2" -> 2 [] c = "3" -> 3 [] c = "4" -> 4
           [] c = "5" -> 5 [] c = "6" -> 6 [] c = "7" -> 7 [] c = "8" -> 8 [] c = "9" -> 9 [] OTHER -> 0

RECURSIVE LexLE(_, _)
LexLE(a, b) == IF a = <<>> THEN TRUE
               ELSE IF DV(a[1]) < DV(b[1]) THEN TRUE
               ELSE IF DV(a[1]) > DV(b[1]) THEN FALSE
               ELSE LexLE(Tail(a), Tail(b))
\* a =< b for canonical magnitudes (no leading zeros)
MagLE(a, b) == Len(a) < Len(b) \/ (Len(a) = Len(b) /\ LexLE(a, b))

RECURSIVE StripZ(_)
StripZ(d) == IF Len(d) > 1 /\ d[1] = "0" THEN StripZ(Tail(d)) ELSE d

AllDigits(s) == \A i \in 1..Len(s) : s[i] \in DigitCh
RECURSIVE DigitPrefixLen(_)
DigitPrefixLen(s) == IF s = <<>> \/ s[1] \notin DigitCh THEN 0 ELSE 1 + DigitPrefixLen(Tail(s))

(* ======================================================================= *)
(* 2. integer widths (usize / isize are 64 bit: the harness asserts it)    *)
(* ======================================================================= *)
UnsignedTy == {"u8", "u16", "u32", "u64", "usize"}
SignedTy   == {"i8", "i16", "i32", "i64", "isize"}
IntTy      == UnsignedTy \cup SignedTy
StrTy      == {"String", "Cow", "str"}
ParamTy    == IntTy \cup StrTy
WidthOf(ty) == IF ty = "usize" THEN "u64" ELSE IF ty = "isize" THEN "i64" ELSE ty

MaxMagW(w) == CASE w = "u8" -> <<"2","5","5">>
                [] w = "u16" -> <<"6","5","5","3","5">>
                [] w = "u32" -> <<"4","2","9","4","9","6","7","2","9","5">>
                [] w = "u64" -> <<"1","8","4","4","6","7","4","4","0","7","3","7","0","9","5","5","1","6","1","5">>
                [] w = "i8" -> <<"1","2","7">>
                [] w = "i16" -> <<"3","2","7","6","7">>
                [] w = "i32" -> <<"2","1","4","7","4","8","3","6","4","7">>
                [] w = "i64" -> <<"9","2","2","3","3","7","2","0","3","6","8","5","4","7","7","5","8","0","7">>
MinMagW(w) == CASE w = "u8" -> <<"0">>
                [] w = "u16" -> <<"0">>
                [] w = "u32" -> <<"0">>
                [] w = "u64" -> <<"0">>
                [] w = "i8" -> <<"1","2","8">>
                [] w = "i16" -> <<"3","2","7","6","8">>
                [] w = "i32" -> <<"2","1","4","7","4","8","3","6","4","8">>
                [] w = "i64" -> <<"9","2","2","3","3","7","2","0","3","6","8","5","4","7","7","5","8","0","8">>
MaxMag(ty) == MaxMagW(WidthOf(ty))
MinMag(ty) == MinMagW(WidthOf(ty))

(* ======================================================================= *)
(* 3. segment tokens                                                       *)
(* Every token has: the abstract characters it DECODES to, whether it is   *)
(* written percent-escaped, whether its decoding is not UTF-8.             *)
(* ======================================================================= *)
LitTab == ("MAX:u8" :> <<"2","5","5">>) @@
          ("MAX1:u8" :> <<"2","5","6">>) @@
          ("MAX:u16" :> <<"6","5","5","3","5">>) @@
          ("MAX1:u16" :> <<"6","5","5","3","6">>) @@
          ("MAX:u32" :> <<"4","2","9","4","9","6","7","2","9","5">>) @@
          ("MAX1:u32" :> <<"4","2","9","4","9","6","7","2","9","6">>) @@
          ("MAX:u64" :> <<"1","8","4","4","6","7","4","4","0","7","3","7","0","9","5","5","1","6","1","5">>) @@
          ("MAX1:u64" :> <<"1","8","4","4","6","7","4","4","0","7","3","7","0","9","5","5","1","6","1","6">>) @@
          ("MAX:i8" :> <<"1","2","7">>) @@
          ("MAX1:i8" :> <<"1","2","8">>) @@
          ("MIN:i8" :> <<"-","1","2","8">>) @@
          ("MIN1:i8" :> <<"-","1","2","9">>) @@
          ("MAX:i16" :> <<"3","2","7","6","7">>) @@
          ("MAX1:i16" :> <<"3","2","7","6","8">>) @@
          ("MIN:i16" :> <<"-","3","2","7","6","8">>) @@
          ("MIN1:i16" :> <<"-","3","2","7","6","9">>) @@
          ("MAX:i32" :> <<"2","1","4","7","4","8","3","6","4","7">>) @@
          ("MAX1:i32" :> <<"2","1","4","7","4","8","3","6","4","8">>) @@
          ("MIN:i32" :> <<"-","2","1","4","7","4","8","3","6","4","8">>) @@
          ("MIN1:i32" :> <<"-","2","1","4","7","4","8","3","6","4","9">>) @@
          ("MAX:i64" :> <<"9","2","2","3","3","7","2","0","3","6","8","5","4","7","7","5","8","0","7">>) @@
          ("MAX1:i64" :> <<"9","2","2","3","3","7","2","0","3","6","8","5","4","7","7","5","8","0","8">>) @@
          ("MIN:i64" :> <<"-","9","2","2","3","3","7","2","0","3","6","8","5","4","7","7","5","8","0","8">>) @@
          ("MIN1:i64" :> <<"-","9","2","2","3","3","7","2","0","3","6","8","5","4","7","7","5","8","0","9">>) @@
          ("P2W1:8" :> <<"2","5","7">>) @@
          ("P2W1:16" :> <<"6","5","5","3","7">>) @@
          ("P2W1:32" :> <<"4","2","9","4","9","6","7","2","9","7">>) @@
          ("P2W1:64" :> <<"1","8","4","4","6","7","4","4","0","7","3","7","0","9","5","5","1","6","1","7">>) @@
          ("NEG1" :> <<"-","1">>) @@
          ("W64M128" :> <<"1","8","4","4","6","7","4","4","0","7","3","7","0","9","5","5","1","4","8","8">>) @@
          ("W64P255" :> <<"1","8","4","4","6","7","4","4","0","7","3","7","0","9","5","5","1","8","7","1">>) @@
          ("E20" :> <<"1","0","0","0","0","0","0","0","0","0","0","0","0","0","0","0","0","0","0","0","0">>) @@
          ("NE20" :> <<"-","1","0","0","0","0","0","0","0","0","0","0","0","0","0","0","0","0","0","0","0","0">>) @@
          ("W65" :> <<"3","6","8","9","3","4","8","8","1","4","7","4","1","9","1","0","3","2","3","2">>)
LitTok == DOMAIN LitTab

\* plain tokens (written as themselves)
PlainTok == {"0", "1", "7", "9", "-", "+", "L"}
\* escaped tokens: e0 = %30, e7 = %37, eL = escaped upper-case letter (%41 / %5A), sp = %20,
\* mb = escaped multi-byte UTF-8 character, sl = %2F, pc = %25
EscTok   == {"e0", "e7", "eL", "sp", "mb", "sl", "pc"}
\* escapes whose decoding is not UTF-8: ff = %FF, c3 = lone lead byte %C3
BadTok   == {"ff", "c3"}
\* an invalid escape `%GG`: RFC 3986 gives it no decoding; left verbatim or refused
InvTok   == {"bz"}
BaseTok  == PlainTok \cup EscTok \cup BadTok \cup InvTok
SegTok   == BaseTok \cup LitTok

\* abstract characters after percent-decoding.  "E" = the escaped letter, "U" = the multi-byte character,
\* "R" = U+FFFD (only in a lossy rendering of a bad token)
TokChars(t) == IF t \in LitTok THEN LitTab[t]
               ELSE CASE t = "e0" -> <<"0">> [] t = "e7" -> <<"7">> [] t = "eL" -> <<"E">> [] t = "sp" -> <<" ">>
                      [] t = "mb" -> <<"U">> [] t = "sl" -> <<"/">> [] t = "pc" -> <<"%">>
                      [] t = "ff" -> <<"R">> [] t = "c3" -> <<"R">> [] t = "bz" -> <<"%", "G", "G">>
                      [] OTHER -> <<t>>
RECURSIVE SegChars(_)
SegChars(toks) == IF toks = <<>> THEN <<>> ELSE TokChars(toks[1]) \o SegChars(Tail(toks))
SegEsc(toks) == \E i \in 1..Len(toks) : toks[i] \in EscTok \cup BadTok
SegBad(toks) == \E i \in 1..Len(toks) : toks[i] \in BadTok
SegInvalid(toks) == \E i \in 1..Len(toks) : toks[i] \in InvTok

(* ======================================================================= *)
(* 4. results and outcomes                                                 *)
(* a value is a record [k, v]: k in {"int","str","val","some","none"},     *)
(* v a sequence of 1-character strings / value names (uniform shape: TLC   *)
(* refuses to compare values of different kinds)                           *)
(* ======================================================================= *)
Val(k, v) == [k |-> k, v |-> v]
Ok(val)   == [ok |-> TRUE, val |-> val]
Fail      == [ok |-> FALSE, val |-> Val("fail", <<>>)]

(* ----- integers: "accepted only if the whole segment denotes an in-range integer and then carries that value" *)
\* what the decoded characters denote: [k |-> "int", neg, mag] or [k |-> "nan", ..]
Denoted(cs) ==
  IF cs = <<>> THEN [k |-> "nan", neg |-> FALSE, mag |-> <<>>]
  ELSE LET signed == cs[1] \in {"-", "+"}
           ds == IF signed THEN Tail(cs) ELSE cs
       IN IF ds # <<>> /\ AllDigits(ds)
            THEN [k |-> "int", neg |-> (cs[1] = "-" /\ StripZ(ds) # <<"0">>), mag |-> StripZ(ds)]
            ELSE [k |-> "nan", neg |-> FALSE, mag |-> <<>>]
InRange(ty, d) == IF d.neg THEN MagLE(d.mag, MinMag(ty)) ELSE MagLE(d.mag, MaxMag(ty))
Canon(d) == IF d.neg THEN <<"-">> \o d.mag ELSE d.mag
\* the canonical decimal spelling of an integer: no escapes, no `+`, no `-0`, no leading zeros
CanonicalSpelling(toks) == ~SegEsc(toks) /\ LET cs == SegChars(toks) IN Denoted(cs).k = "int" /\ Canon(Denoted(cs)) = cs

IntClass(ty, toks) ==
  LET cs == SegChars(toks)
      d == Denoted(cs) IN
  IF SegBad(toks) THEN "not-utf8"
  ELSE IF d.k = "int" THEN (IF InRange(ty, d) THEN (IF CanonicalSpelling(toks) THEN "canonical" ELSE "noncanonical") ELSE "out-of-range")
  ELSE "not-an-integer"

IntResults(ty, toks) ==
  LET c == IntClass(ty, toks)
      v == Ok(Val("int", Canon(Denoted(SegChars(toks))))) IN
  CASE c = "canonical"    -> {v}            \* MUST run with exactly that value
    [] c = "noncanonical" -> {v, Fail}      \* `+5`, `-0`, `007`, `%37`: the right value or refused
    [] OTHER              -> {Fail}         \* garbage, out of range, not UTF-8: the handler must not run

(* ----- strings: "each path parameter is the percent-decoded segment at its position" *)
\* a segment whose decoding is not UTF-8 has no String value -- "exactly the percent-decoded segment" cannot be produced: the handler must
\* not run (a lossy rendering with U+FFFD is a string the request does not denote)
StrResults(ty, toks) ==
  LET v == Ok(Val("str", SegChars(toks))) IN
  IF SegBad(toks) THEN {Fail}
  ELSE IF SegInvalid(toks) THEN {Fail, v}                  \* v has the invalid escape verbatim
  ELSE IF ty = "str" /\ SegEsc(toks) THEN {v, Fail}    \* a borrowed &str cannot hold a decoded segment: may be refused
  ELSE {v}

ParamResults(ty, toks) == IF ty \in IntTy THEN IntResults(ty, toks) ELSE StrResults(ty, toks)

(* ----- position binding.  route: sequence of "S" / "P"; segs: one token sequence per "P".
   A handler declaring as many params as the route captures gets them in order.  A handler declaring
   fewer (k < n, accepted by ohkami) gets k of them in order: the text says "at its position" and does
   not say whether positions count from the first or from the last captured segment, so both are allowed. *)
NParams(route) == Cardinality({i \in 1..Len(route) : route[i] = "P"})
BindChoices(k, n) == IF k = n THEN {[i \in 1..k |-> i]}
                     ELSE {[i \in 1..k |-> i], [i \in 1..k |-> n - k + i]}
ParamResultSeqs(ptys, segs) ==
  {[i \in 1..Len(ptys) |-> ParamResults(ptys[i], segs[b[i]])] : b \in BindChoices(Len(ptys), Len(segs))}

(* ----- extractors *)
BodyX   == {"JSON", "URLEncoded", "Multipart", "Text"}
HeaderX == {"Auth", "MaxFwd", "Cookie"}
ItemX   == {"Query"} \cup BodyX \cup HeaderX
\* payload classes of a structured item (targets {a: String, n: u32} = "AN", {a: String, n: Option<u32>} = "AO",
\* {a: Option<String>, n: Option<u32>} = "OO": the one target that no query at all denotes a value of ("nothing"),
\* {a: String, n: String} = "AS": multipart text fields are strings, ohkami's multipart deserializer reads no numbers)
StructPl == {"v1", "v2", "extra", "syntax", "wrongtype", "missing"}
TextPl   == {"v1", "v2", "nonutf8"}

\* [st |-> "valid" | "invalid" | "may", v |-> value name]
Deser(ty, pl) ==
  CASE pl \in {"v1", "v2"} -> [st |-> "valid", v |-> pl]
    [] pl = "extra"        -> [st |-> "may", v |-> "v1"]          \* v1 plus an unknown key: ignored or refused
    [] pl = "missing"      -> IF ty \in {"AO", "OO"} THEN [st |-> "valid", v |-> "v1-n"] ELSE [st |-> "invalid", v |-> ""]
    [] pl = "wrongtype" /\ ty = "AS" -> [st |-> "valid", v |-> "v1w"]   \* any text is a string
    [] OTHER               -> [st |-> "invalid", v |-> ""]

\* what the request carries for item `it`:  st in {"absent","empty","valid","invalid","may"}
Carried(it, rq) ==
  CASE it.x = "Query"  -> IF rq.q \in {"absent", "emptyq"}                                                          \* emptyq: a bare `?`
                          THEN (IF it.ty = "OO" THEN [st |-> "valid", v |-> "nothing"] ELSE [st |-> "absent", v |-> ""])
                          ELSE Deser(it.ty, rq.q)
    [] it.x = "Auth"   -> IF rq.auth = "absent" THEN [st |-> "absent", v |-> ""] ELSE [st |-> "valid", v |-> rq.auth]
    [] it.x = "MaxFwd" -> IF rq.mf = "absent" THEN [st |-> "absent", v |-> ""]
                          ELSE IF rq.mf = "valid" THEN [st |-> "valid", v |-> "n1"] ELSE [st |-> "invalid", v |-> ""]
    [] it.x = "Cookie" -> IF rq.ck = "absent" THEN [st |-> "absent", v |-> ""] ELSE Deser(it.ty, rq.ck)
    [] OTHER -> \* body extractor: "the deserialization of the body under the matching Content-Type"
         IF rq.ct.mime # it.x THEN [st |-> "absent", v |-> ""]
         ELSE IF rq.body.pl = "empty" THEN [st |-> "empty", v |-> ""]
         ELSE IF it.x = "Text" THEN (IF rq.body.fmt = "Text" /\ rq.body.pl = "nonutf8" THEN [st |-> "invalid", v |-> ""]
                                     ELSE [st |-> "valid", v |-> "body"])   \* any UTF-8 body is its own text
         ELSE IF rq.body.fmt # it.x THEN [st |-> "invalid", v |-> ""]        \* bytes of another format
         ELSE Deser(it.ty, rq.body.pl)

ItemResults(it, rq) ==
  LET c == Carried(it, rq)
      okv(v) == Ok(Val(IF it.opt THEN "some" ELSE "val", <<v>>))
      none == Ok(Val("none", <<>>))
      present == CASE c.st = "valid" -> {okv(c.v)}
                   [] c.st = "may" -> {okv(c.v), Fail}
                   [] OTHER -> {Fail}
      \* "an optional item is None only when the request does not carry that item"
      absent == IF it.opt THEN (IF it.x = "Query" THEN {none, Fail} ELSE {none}) ELSE {Fail}
      \* a matching Content-Type with a zero-length body: no body at all, or the empty text
      empty == IF it.x = "Text" THEN (IF it.opt THEN {none, okv("body")} ELSE {Fail, okv("body")})
               ELSE (IF it.opt THEN {none, Fail} ELSE {Fail})
      base == CASE c.st = "absent" -> absent [] c.st = "empty" -> empty [] OTHER -> present
  IN IF it.x \in BodyX /\ rq.ct.mime = it.x /\ rq.ct.var = "case"
       THEN base \cup absent       \* media types are case-insensitive; whether `Application/JSON` matches is left open
       ELSE base

(* ----- the whole scenario:
     [route, mount, ptys, style, items, segs, rq, method]                                        *)
ResultSeqs(scn) ==
  LET its == [i \in 1..Len(scn.items) |-> ItemResults(scn.items[i], scn.rq)] IN
  {ps \o its : ps \in ParamResultSeqs(scn.ptys, scn.segs)}

\* o = [ran |-> BOOLEAN, vals |-> sequence of [k, v]]
OutcomeOKFor(rs, o) ==
  IF o.ran THEN Len(o.vals) = Len(rs) /\ \A i \in 1..Len(rs) : Ok(o.vals[i]) \in rs[i]
  ELSE \E i \in 1..Len(rs) : Fail \in rs[i]
OutcomeOK(scn, o) == \E rs \in ResultSeqs(scn) : OutcomeOKFor(rs, o)

MustRun(scn)    == \A rs \in ResultSeqs(scn) : \A i \in 1..Len(rs) : Fail \notin rs[i]
MustRefuse(scn) == \A rs \in ResultSeqs(scn) : \E i \in 1..Len(rs) : rs[i] = {Fail}

(* ======================================================================= *)
(* 5. the mechanism (layer b)                                              *)
(* ======================================================================= *)
U64Max == MaxMagW("u64")
I64Max == MaxMagW("i64")
I64Min == MinMagW("i64")

\* byte_reader::read_uint / read_int + Self::try_from: [res |-> Ok(..) | Fail | "unspecified", dev |-> ""|"prefix"|"wrap"]
ImplIntOriginal(ty, cs) ==
  LET sgn == ty \in SignedTy
      neg == sgn /\ cs # <<>> /\ cs[1] = "-"
      body == IF neg THEN Tail(cs) ELSE cs
      n == DigitPrefixLen(body)
      mag == StripZ(SubSeq(body, 1, n))
      garbage == n < Len(body)
      \* the accumulator: usize for read_uint, then `as isize` for a signed target; isize (negated) after `-`
      fits == IF ~sgn THEN MagLE(mag, U64Max) ELSE IF neg THEN MagLE(mag, I64Min) ELSE MagLE(mag, I64Max)
      d == [k |-> "int", neg |-> (neg /\ mag # <<"0">>), mag |-> mag]
  IN IF n = 0 THEN [res |-> Fail, dev |-> ""]
     ELSE IF ~fits THEN [res |-> Fail, dev |-> "wrap"]              \* wraps modulo 2^64: value not modelled
     ELSE [res |-> IF InRange(ty, d) THEN Ok(Val("int", Canon(d))) ELSE Fail,
           dev |-> IF garbage THEN "prefix" ELSE ""]
\* proposed repair: `param.parse::<T>()` (std FromStr: optional `+`, `-` only for signed types, digits, checked)
ImplIntRepaired(ty, cs) ==
  LET d == Denoted(cs)
      minusOnUnsigned == ty \in UnsignedTy /\ cs # <<>> /\ cs[1] = "-" IN
  [res |-> IF d.k = "int" /\ ~minusOnUnsigned /\ InRange(ty, d) THEN Ok(Val("int", Canon(d))) ELSE Fail, dev |-> ""]
ImplParam(ty, toks) ==
  IF SegBad(toks) THEN [res |-> Fail, dev |-> ""]                         \* percent_decode_utf8 fails: 500
  ELSE IF ty \in IntTy THEN (IF REPAIRED THEN ImplIntRepaired(ty, SegChars(toks)) ELSE ImplIntOriginal(ty, SegChars(toks)))
  ELSE IF ty = "str" /\ SegEsc(toks) THEN [res |-> Fail, dev |-> ""]     \* Cow::Owned cannot be lent as &str
  ELSE [res |-> Ok(Val("str", SegChars(toks))), dev |-> ""]

\* FromRequest of one item: "none" (Option::None of from_request), Ok(v), Fail
ImplItemRaw(it, rq) ==
  LET c == Carried(it, rq)
      parsed == IF c.st = "valid" \/ c.st = "may" THEN [t |-> "ok", v |-> c.v] ELSE [t |-> "err", v |-> ""] IN
  CASE it.x = "Query" -> IF rq.q \in {"absent", "emptyq"} /\ it.ty # "OO" THEN [t |-> "err", v |-> ""] ELSE parsed     \* the empty query is parsed, too
    [] it.x \in HeaderX -> IF c.st = "absent" THEN [t |-> "none", v |-> ""] ELSE parsed
    [] OTHER -> IF rq.ct.mime = "none" THEN [t |-> "none", v |-> ""]
                ELSE IF rq.ct.mime # it.x \/ rq.ct.var = "case" THEN [t |-> "none", v |-> ""]   \* starts_with(MIME_TYPE)
                ELSE IF rq.body.pl = "empty" THEN [t |-> "none", v |-> ""]                       \* payload()? is None
                ELSE parsed
ImplItem(it, rq) ==
  LET r == ImplItemRaw(it, rq) IN
  IF it.opt THEN (CASE r.t = "none" -> Ok(Val("none", <<>>)) [] r.t = "ok" -> Ok(Val("some", <<r.v>>)) [] OTHER -> Fail)
  ELSE (CASE r.t = "ok" -> Ok(Val("val", <<r.v>>)) [] OTHER -> Fail)      \* None of a required item: 400

\* IntoHandler: the first k captured segments, every item, handler called only if all are Ok
ImplOutcome(scn) ==
  LET ps == [i \in 1..Len(scn.ptys) |-> ImplParam(scn.ptys[i], scn.segs[i])]
      is == [i \in 1..Len(scn.items) |-> ImplItem(scn.items[i], scn.rq)]
      all == [i \in 1..Len(ps) |-> ps[i].res] \o is
      devs == {ps[i].dev : i \in 1..Len(ps)} \ {""}
  IN [o |-> IF \A i \in 1..Len(all) : all[i].ok THEN [ran |-> TRUE, vals |-> [i \in 1..Len(all) |-> all[i].val]]
            ELSE [ran |-> FALSE, vals |-> <<>>],
      devs |-> devs]

(* ======================================================================= *)
(* 6. catalogue of handler signatures compiled into the harness            *)
(* ======================================================================= *)
It(x, opt, ty) == [x |-> x, opt |-> opt, ty |-> ty]
iQ == It("Query", FALSE, "AN")      iQo == It("Query", TRUE, "AN")     iQA == It("Query", FALSE, "AO")     iQOO == It("Query", FALSE, "OO")
iJ == It("JSON", FALSE, "AN")       iJo == It("JSON", TRUE, "AN")      iJA == It("JSON", FALSE, "AO")    iJAo == It("JSON", TRUE, "AO")
iU == It("URLEncoded", FALSE, "AN") iUo == It("URLEncoded", TRUE, "AN")
iM == It("Multipart", FALSE, "AS")  iMo == It("Multipart", TRUE, "AS")
iT == It("Text", FALSE, "S")        iTo == It("Text", TRUE, "S")
iA == It("Auth", FALSE, "S")        iAo == It("Auth", TRUE, "S")
iX == It("MaxFwd", FALSE, "N")      iXo == It("MaxFwd", TRUE, "N")
iC == It("Cookie", FALSE, "AN")     iCo == It("Cookie", TRUE, "AN")

Sig(style, ptys, items) == [style |-> style, ptys |-> ptys, items |-> items]
ParamTySeq == <<"u8", "u16", "u32", "u64", "usize", "i8", "i16", "i32", "i64", "isize", "String", "Cow", "str">>
PairCat == {<<"String", "String">>, <<"String", "u32">>, <<"u32", "String">>, <<"str", "u64">>, <<"Cow", "i64">>, <<"i8", "u8">>,
            <<"u16", "i16">>, <<"i32", "str">>, <<"usize", "isize">>, <<"u64", "Cow">>, <<"isize", "usize">>, <<"i64", "i32">>,
            <<"u8", "i8">>, <<"i16", "u16">>}
ParamSigs == {Sig("none", <<>>, <<>>)}
             \cup {Sig("bare", <<t>>, <<>>) : t \in ParamTy} \cup {Sig("tuple", <<t>>, <<>>) : t \in ParamTy}
             \cup {Sig("tuple", p, <<>>) : p \in PairCat}
ItemSigs ==
  {Sig("none", <<>>, <<i>>) : i \in {iQ, iQo, iQA, iQOO, iJ, iJo, iJA, iJAo, iU, iUo, iM, iMo, iT, iTo, iA, iAo, iX, iXo, iC, iCo}}
  \cup {Sig("none", <<>>, is) : is \in {<<iQ, iJ>>, <<iQo, iJo>>, <<iQ, iTo>>, <<iA, iJ>>, <<iAo, iCo>>, <<iC, iU>>, <<iJo, iTo>>, <<iX, iMo>>, <<iXo, iQ>>,
                                         <<iQ, iA, iJ>>, <<iQo, iAo, iUo>>, <<iQ, iA, iC, iJ>>, <<iQo, iXo, iCo, iTo>>}}
  \cup {Sig("bare", <<"u32">>, <<iQ>>), Sig("bare", <<"String">>, <<iJ>>), Sig("bare", <<"i64">>, <<iQo, iJo>>), Sig("bare", <<"u8">>, <<iA, iT>>),
        Sig("bare", <<"u16">>, <<iQo, iA, iJ>>), Sig("bare", <<"isize">>, <<iQ, iAo, iXo, iUo>>)}
  \cup {Sig("tuple", <<"u32">>, <<iQ>>), Sig("tuple", <<"u32">>, <<iQ, iJ>>), Sig("tuple", <<"String">>, <<iJo>>),
        Sig("tuple", <<"i8">>, <<iAo, iCo, iU>>), Sig("tuple", <<"str">>, <<iQ, iA, iC, iJ>>)}
  \cup {Sig("tuple", <<"u32", "String">>, <<iQ>>), Sig("tuple", <<"String", "i8">>, <<iJ>>), Sig("tuple", <<"u32", "String">>, <<iQ, iJ>>),
        Sig("tuple", <<"String", "String">>, <<iAo, iUo>>), Sig("tuple", <<"u64", "u16">>, <<iQo, iX, iTo>>),
        Sig("tuple", <<"i32", "Cow">>, <<iQ, iA, iC, iJo>>)}
=============================================================================
