---------------------------- MODULE Trace_Router ----------------------------
(* Trace validation for C01 (dispatch) and C04 (fang order and scope): every line is one application tree
   built on the real code plus the observations of a set of requests against it.  WHAT selects the property. *)
EXTENDS RouterApp, Json, IOUtils

CONSTANT WHAT      \* "c01" | "c04"
Rec == ndJsonDeserialize(IOEnv.TRACE)
VARIABLE l

Cut(o, early) == early # 0 /\ \E i \in DOMAIN o.log : o.log[i] = <<"enter", early>>

\* C01: the handler that ran is one the property allows, with the params of its route; 404 otherwise
DispatchOK(apps, req, o, early) ==
  /\ o.wf
  /\ IF Cut(o, early) THEN o.h = 0 /\ o.status = 403
     ELSE /\ o.h \in AllowedHandlers(apps, req)
          /\ IF o.h = 0 THEN o.status = 404
             ELSE /\ o.status = 200
                  /\ o.params = ExpectedParams(apps, req, o.h)
                  /\ IF req.method = "HEAD" THEN o.blen = 0 ELSE o.echo
DispatchClass(apps, req, o, early) ==
  IF ~o.wf THEN "malformed-response"
  ELSE IF o.h \notin AllowedHandlers(apps, req) THEN (IF o.h = 0 THEN "not-found-but-route-matches" ELSE "wrong-handler")
  ELSE IF o.h = 0 THEN "status-of-not-found"
  ELSE IF o.status # 200 THEN "status-of-hit"
  ELSE IF o.params # ExpectedParams(apps, req, o.h) THEN "params"
  ELSE IF req.method = "HEAD" THEN "head-with-body" ELSE "body"

\* C04: the enter/leave log is the onion trace of the applications covering the path
HandlerIds(apps) == {x.h : x \in AllRoutes(apps)} \cup {0}
FangsOK(apps, req, o, early) ==
  IF Cut(o, early)
    THEN o.h = 0 /\ \E h \in HandlerIds(apps) : o.log = OnionTrace(apps, req, h, early)
    ELSE (o.h \in HandlerIds(apps)) /\ o.log = OnionTrace(apps, req, o.h, early)
Enters(lg) == SelectSeq(lg, LAMBDA e : e[1] = "enter")
FangsClass(apps, req, o, early) ==
  LET exp == OnionTrace(apps, req, IF o.h \in HandlerIds(apps) THEN o.h ELSE 0, early)
      ee == Enters(exp)  oe == Enters(o.log) IN
  IF SeqToSet(oe) \ SeqToSet(ee) # {} THEN "fang-ran-outside-its-scope"
  ELSE IF SeqToSet(ee) \ SeqToSet(oe) # {} THEN "fang-skipped-inside-its-scope"
  ELSE IF oe # ee THEN "enter-order" ELSE "leave-order-or-early-cut"

Bad(r) == LET rs == r.scn.reqs IN
          {k \in DOMAIN rs : ~(IF WHAT = "c01" THEN DispatchOK(r.scn.apps, rs[k], r.obs.res[k], r.scn.early)
                                                ELSE FangsOK(r.scn.apps, rs[k], r.obs.res[k], r.scn.early))}
Shape(apps) == IF Len(apps) = 1 THEN "flat" ELSE "mounted"
ReqClass(apps, req) == LET p == Normalize(req.path, req.trailing) IN
   IF \E x \in AllRoutes(apps) : Matches(x.route, p) THEN "path-matches-a-route" ELSE "path-matches-no-route"
Judge(r) ==
  IF r.obs.kind # "router" THEN [ok |-> FALSE, sig |-> [class |-> r.obs.kind, where |-> r.obs.where]]
  ELSE LET bad == Bad(r) IN
       IF bad = {} THEN [ok |-> TRUE, sig |-> [class |-> "ok"]]
       ELSE LET k == CHOOSE x \in bad : \A y \in bad : x =< y
                req == r.scn.reqs[k]  o == r.obs.res[k] IN
            [ok |-> FALSE, sig |-> [class |-> IF WHAT = "c01" THEN DispatchClass(r.scn.apps, req, o, r.scn.early)
                                                  ELSE FangsClass(r.scn.apps, req, o, r.scn.early),
                                    shape |-> Shape(r.scn.apps), req |-> ReqClass(r.scn.apps, req), nbad |-> ToString(Cardinality(bad)),
                                    first |-> ToString(k)]]

TInit == l = 1
TNext == /\ l <= Len(Rec) /\ l' = l + 1
         /\ LET j == Judge(Rec[l]) IN PrintT(ToJson([t |-> "VERDICT", id |-> Rec[l].id, ok |-> j.ok, sig |-> j.sig]))
TSpec == TInit /\ [][TNext]_l
=============================================================================
