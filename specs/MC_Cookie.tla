----------------------------- MODULE MC_Cookie -----------------------------
(***************************************************************************)
(* Bounded exhaustive check of the C11 specification against itself and of *)
(* the implementation-shaped Cookie walker against the oracle:             *)
(*  JarInv  every jar (<= MaxCookies cookies, values <= MaxLen characters  *)
(*          over one representative per class), in every spelling RFC 6265 *)
(*          allows (each character raw where it is a cookie-octet, or      *)
(*          %XX / %xx; whole value optionally double-quoted) is well-formed,*)
(*          RefJar gives back the jar, and ohkami's walker (ImplJar) agrees *)
(*          unless the named deviation (raw `=` inside a value) applies,    *)
(*          in which case it fails                                          *)
(*  SetInv  the reference Set-Cookie line of every cookie x directive      *)
(*          combination is Conformant and RefSet parses it back            *)
(***************************************************************************)
EXTENDS Cookie, TLC

CONSTANTS MaxLen, MaxCookies

CReps == {97, 61, 38, 43, 47, 45, 33, 37, 32, 44, 59, 34, 92, 9, 0, 233, 29436, 128512}
Names == {<<97>>, <<36, 116, 33>>, <<120, 45, 121>>}
VARIABLE x

Strs(R, n) == UNION {[1..k -> R] : k \in 0..n}
Spelled == {c \in [s : Strs(CReps, MaxLen), esc : Strs(BOOLEAN, MaxLen), up : BOOLEAN, q : BOOLEAN] :
              /\ Len(c.esc) = Len(c.s)
              /\ \A i \in 1..Len(c.s) : (~c.esc[i]) => CkRawOK(c.s[i])}
ValText(c) == LET b == SpellCk(c.s, c.esc, c.up) IN IF c.q THEN Quote(b) ELSE b
JarText(j) == Flat([i \in 1..Len(j) |-> (IF i = 1 THEN <<>> ELSE <<SEMI, SPC>>) \o j[i].n \o <<EQS>> \o ValText(j[i].c)])

\* reference producer of a Set-Cookie line
D(s) == s    \* directive values are given as byte sequences
Dirs == [expires : {<<>>, <<<<87, 101, 100, 44, 32, 50, 49, 32, 79, 99, 116, 32, 50, 48, 49, 53, 32, 48, 55, 58, 50, 56, 58, 48, 48, 32, 71, 77, 84>>>>},
         maxage : {<<>>, <<<<48>>>>, <<<<49, 56, 52, 52, 54, 55, 52, 52, 48, 55, 51, 55, 48, 57, 53, 53, 49, 54, 49, 53>>>>},
         domain : {<<>>, <<<<101, 120, 46, 99, 111, 109>>>>},
         path : {<<>>, <<<<47>>>>, <<<<47, 97, 32, 98>>>>},
         secure : {<<>>, <<<<>>>>}, httponly : {<<>>, <<<<>>>>},
         samesite : {<<>>, <<<<83, 116, 114, 105, 99, 116>>>>, <<<<78, 111, 110, 101>>>>}]
Av(label, v, flag) == IF v = <<>> THEN <<>> ELSE <<SEMI, SPC>> \o label \o (IF flag THEN <<>> ELSE <<EQS>> \o v[1])
RefBuild(name, value, d) ==
  name \o <<EQS>> \o EncodeStr(value)
  \o Av(<<69, 120, 112, 105, 114, 101, 115>>, d.expires, FALSE) \o Av(<<77, 97, 120, 45, 65, 103, 101>>, d.maxage, FALSE)
  \o Av(<<68, 111, 109, 97, 105, 110>>, d.domain, FALSE) \o Av(<<80, 97, 116, 104>>, d.path, FALSE)
  \o Av(<<83, 101, 99, 117, 114, 101>>, d.secure, TRUE) \o Av(<<72, 116, 116, 112, 79, 110, 108, 121>>, d.httponly, TRUE)
  \o Av(<<83, 97, 109, 101, 83, 105, 116, 101>>, d.samesite, FALSE)

Init == x = [t |-> "init"]
Shard == \/ \E n \in Names : \E c \in Spelled : x' = [t |-> "sh-jar", first |-> [n |-> n, c |-> c]]
         \/ \E d \in Dirs : x' = [t |-> "sh-set", d |-> d]
PickJar == \/ x' = [t |-> "jar", j |-> <<x.first>>]
           \/ MaxCookies >= 2 /\ \E n \in Names \ {x.first.n} : \E c \in {s \in Spelled : Len(s.s) <= 1} :
                x' = [t |-> "jar", j |-> <<x.first, [n |-> n, c |-> c]>>]
PickSet == \E n \in Names : \E v \in Strs(CReps, MaxLen) : x' = [t |-> "set", n |-> n, v |-> v, d |-> x.d]
Next == \/ x.t = "init" /\ Shard
        \/ x.t = "sh-jar" /\ PickJar
        \/ x.t = "sh-set" /\ PickSet
Spec == Init /\ [][Next]_x

JarInv == x.t = "jar" =>
  LET text == JarText(x.j)
      ref == RefJar(text)
      impl == ImplJar(text) IN
  /\ WellFormedCookie(text)
  /\ Len(ref) = Len(x.j)
  /\ \A i \in 1..Len(x.j) : ref[i].k.v = x.j[i].n /\ ref[i].v = [ok |-> TRUE, v |-> x.j[i].c.s]
  /\ IF RawEqInValue(text) THEN ~impl.ok           \* named deviation "eq-in-value"
     ELSE /\ impl.ok /\ Len(impl.ps) = Len(x.j)
          /\ \A i \in 1..Len(x.j) : impl.ps[i].k = x.j[i].n /\ impl.ps[i].v = Utf8Bytes(x.j[i].c.s)
SetInv == x.t = "set" =>
  LET line == RefBuild(x.n, x.v, x.d)
      r == RefSet(line) IN
  /\ Conformant(line)
  /\ r.ok /\ r.name = x.n /\ r.value = [ok |-> TRUE, v |-> x.v]
  /\ r.expires = x.d.expires /\ r.maxage = x.d.maxage /\ r.domain = x.d.domain /\ r.path = x.d.path
  /\ r.secure = x.d.secure /\ r.httponly = x.d.httponly /\ r.samesite = x.d.samesite
=============================================================================
