--------------------------- MODULE MC_RespHeaders ---------------------------
(* Exhaustive check (all operation histories up to MaxOps) that the header-map mechanism of
   RespHeaders refines the ideal response: layer (b) against layer (a). *)
EXTENDS RespHeaders

CONSTANT MaxOps
VARIABLES ideal, impl, n

Ops == {<<"set", h, t>> : h \in UserStd, t \in {"p", "qq"}}
       \cup {<<"app", h, "p">> : h \in UserStd}
       \cup {<<"rem", h>> : h \in UserStd}
       \cup {<<"cset", h, t>> : h \in {"X"}, t \in {"p", "qq"}}
       \cup {<<"capp", "X", "p">>, <<"crem", "X">>, <<"cookie", "c1">>}
       \cup {<<"body", "text", "n3">>, <<"body", "json", "n12">>, <<"body", "stream", "n3">>, <<"drop">>}
       \cup {<<"status", "s204">>, <<"status", "s404">>, <<"status", "s205">>, <<"rebuild">>}

MCInit == ideal = IdealInit /\ impl = ImplInit /\ n = 0
MCNext == /\ n < MaxOps /\ n' = n + 1
          /\ \E op \in Ops : ideal' = IdealApply(ideal, op) /\ impl' = ImplApply(impl, op)
MCSpec == MCInit /\ [][MCNext]_<<ideal, impl, n>>

\* after every operation the header block has every live user header once, with its latest value
StepOK    == HeadersOK(ideal, ImplLines(impl))
\* the counter from which the output buffer is reserved is exactly the size of the block (so never too small)
SizeExact == impl.size = ImplBlockBytes(impl)
NoOverrun == ImplBlockBytes(impl) =< impl.size
\* ... also after complete()
SizeExactAfterFinish == \A m \in {"GET", "HEAD"} : LET f == ImplFinish(impl, m) IN ImplBlockBytes(f) =< f.size
\* what goes on the wire is what the property allows
Refines   == \A m \in {"GET", "HEAD"} : WireOK(ideal, m, ImplWire(impl, m))
=============================================================================
