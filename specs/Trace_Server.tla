---------------------------- MODULE Trace_Server ----------------------------
(* Trace validation of end-to-end runs against the composition Server.tla: the ndjson file holds, per run, a `reset`
   line (application, requests of the connection, early-answering fang), one line per event of the real session
   (hooks of Request::read / Session::manage interleaved with the fang and handler events), and an `end` line with
   the statuses the client saw.  Every event must be a step of Server; SInv must hold after every step; at `end`
   the responses the machine counted are the ones the client received. *)
EXTENDS Server, Json, IOUtils

Rec == ndJsonDeserialize(IOEnv.TRACE)
N == Len(Rec)
VARIABLES l, id
tvars == <<svars, l, id>>

Cur == Rec[l]
Consume == l' = l + 1
TInit == SInit(<<>>, <<>>, 0) /\ l = 1 /\ id = 0
TReset == /\ l <= N /\ Cur.ev = "reset" /\ Consume /\ id' = Cur.id
          /\ phase' = "idle" /\ k' = 0 /\ apps' = Cur.apps /\ reqs' = Cur.conn /\ early' = Cur.early /\ log' = <<>> /\ status' = 0
          /\ closing' = FALSE /\ answered' = <<>>
NextReset(j) == CHOOSE m \in j..(N + 1) : (m = N + 1 \/ Rec[m].ev = "reset") /\ \A i \in j..(m - 1) : Rec[i].ev # "reset"
TSkip == /\ l <= N /\ Cur.ev # "reset" /\ l' = NextReset(l) /\ UNCHANGED <<svars, id>>

Step(A) == /\ l <= N /\ Consume /\ A /\ UNCHANGED id /\ SInv'
TEvent == \/ (l <= N /\ Cur.ev = "read-start" /\ Step(ReadStart))
          \/ (l <= N /\ Cur.ev = "read" /\ Step(ReadDone(Cur.a)))
          \/ (l <= N /\ Cur.ev = "parsed" /\ Step(Parsed(Cur.a = 1)))
          \/ (l <= N /\ Cur.ev \in {"enter", "leave", "handler"} /\ Step(FangEvent(<<Cur.ev, Cur.a>>)))
          \/ (l <= N /\ Cur.ev = "handled" /\ Step(Handled(Cur.a)))
          \/ (l <= N /\ Cur.ev = "sent" /\ Step(Sent))
          \/ (l <= N /\ Cur.ev = "rejected" /\ Step(Rejected(Cur.a)))
          \/ (l <= N /\ Cur.ev = "close" /\ Step(Close))
TEnd == /\ l <= N /\ Cur.ev = "end" /\ Consume /\ UNCHANGED <<svars, id>>
        /\ PrintT(ToJson([t |-> "VERDICT", id |-> id,
                          ok |-> ([j \in DOMAIN answered |-> answered[j].status] = Cur.statuses) /\ phase \in {"closed", "idle", "reading", "read"},
                          sig |-> [class |-> IF [j \in DOMAIN answered |-> answered[j].status] # Cur.statuses THEN "client-saw-other-responses" ELSE "end-phase-" \o phase]]))
TNext == TReset \/ TSkip \/ TEvent \/ TEnd
TSpec == TInit /\ [][TNext]_tvars
=============================================================================
