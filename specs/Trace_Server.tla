---------------------------- MODULE Trace_Server ----------------------------
(* Trace validation of end-to-end runs against the composition Server.tla: the ndjson file holds, per run, a `reset`
   line (application, requests of the connection, early-answering fang), one line per event of the real session
   (hooks of Request::read / Session::manage interleaved with the fang and handler events), and an `end` line with
   the statuses the client saw.  Every event must be a step of Server; SInv must hold after every step; at `end`
   the responses the machine counted are the ones the client received.

   The search is linear: every event line carries its arguments, so the spec never branches.  An event whose guard is
   false, or a state in which an invariant of the composition is broken, ends the run with a STUCK record that names
   the event, the phase and the broken invariant (the driver attributes it to a property from that), and validation
   goes on with the next run. *)
EXTENDS Server, Json, IOUtils

Rec == ndJsonDeserialize(IOEnv.TRACE)
N == Len(Rec)
VARIABLES l, id
tvars == <<svars, l, id>>

Cur == Rec[l]
Consume == l' = l + 1
TInit == SInit(<<>>, <<>>, 0) /\ l = 1 /\ id = 0
TReset == /\ l <= N /\ Cur.ev = "reset" /\ Consume /\ id' = Cur.id
          /\ phase' = "idle" /\ k' = 0 /\ apps' = Cur.apps /\ reqs' = Cur.conn /\ early' = Cur.early /\ log' = <<>> /\ status' = 0
          /\ closing' = FALSE /\ answered' = <<>>
NextReset(j) == CHOOSE m \in j..(N + 1) : (m = N + 1 \/ Rec[m].ev = "reset") /\ \A i \in j..(m - 1) : Rec[i].ev # "reset"

EvNames == {"read-start", "read", "parsed", "enter", "leave", "handler", "handled", "sent", "rejected", "close"}
Guard(r) == CASE r.ev = "read-start" -> CanReadStart [] r.ev = "read" -> CanReadDone(r.a) [] r.ev = "parsed" -> CanParsed(r.a = 1)
              [] r.ev \in {"enter", "leave", "handler"} -> CanFangEvent(<<r.ev, r.a>>)
              [] r.ev = "handled" -> CanHandled(r.a) [] r.ev = "sent" -> CanSent [] r.ev = "rejected" -> CanRejected(r.a)
              [] r.ev = "close" -> CanClose [] OTHER -> FALSE
Act(r) == CASE r.ev = "read-start" -> ReadStart [] r.ev = "read" -> ReadDone(r.a) [] r.ev = "parsed" -> Parsed(r.a = 1)
            [] r.ev \in {"enter", "leave", "handler"} -> FangEvent(<<r.ev, r.a>>)
            [] r.ev = "handled" -> Handled(r.a) [] r.ev = "sent" -> Sent [] r.ev = "rejected" -> Rejected(r.a)
            [] r.ev = "close" -> Close [] OTHER -> FALSE
Stuck(why) == /\ PrintT(ToJson([t |-> "STUCK", id |-> id, at |-> l, ev |-> Cur.ev, a |-> Cur.a, why |-> why, phase |-> phase, k |-> k]))
              /\ l' = NextReset(l) /\ UNCHANGED <<svars, id>>
TEvent == /\ l <= N /\ Cur.ev \in EvNames
          /\ IF ~SInv THEN Stuck("invariant:" \o BrokenInv)
             ELSE IF Guard(Cur) THEN (Consume /\ Act(Cur) /\ UNCHANGED id)
             ELSE Stuck("guard")
TEnd == /\ l <= N /\ Cur.ev = "end" /\ Consume /\ UNCHANGED <<svars, id>>
        /\ LET seen == [j \in DOMAIN answered |-> answered[j].status] IN
           PrintT(ToJson([t |-> "VERDICT", id |-> id,
                          ok |-> SInv /\ seen = Cur.statuses /\ phase \in {"closed", "idle", "reading", "read"},
                          sig |-> [class |-> IF ~SInv THEN "invariant:" \o BrokenInv
                                             ELSE IF seen # Cur.statuses THEN "client-saw-other-responses" ELSE "end-phase-" \o phase]]))
\* lines of a run that got stuck before a `reset` was reached cannot occur (Stuck jumps to the next reset); anything else is skipped
TOther == /\ l <= N /\ Cur.ev \notin EvNames \cup {"reset", "end"} /\ Consume /\ UNCHANGED <<svars, id>>
TNext == TReset \/ TEvent \/ TEnd \/ TOther
TSpec == TInit /\ [][TNext]_tvars
=============================================================================
