SPECIFICATION Spec
CONSTANTS
  MaxScript = 10
  MaxSpurious = 2
  FORWARD_WAKER = TRUE
  READY_DRAINS = TRUE
INVARIANTS TypeOK PrefixInv QueueInv DoneInv
PROPERTIES Terminates EveryPushDelivered AllDelivered
CHECK_DEADLOCK FALSE
