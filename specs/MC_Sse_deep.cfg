SPECIFICATION Spec
CONSTANTS
  MaxScript = 10
  MaxSpurious = 2
  FORWARD_WAKER = TRUE
  READY_DRAINS = TRUE
  FILTER_MODE = "none"
  CHAIN_MODE = "none"
INVARIANTS TypeOK PrefixInv QueueInv DoneInv
PROPERTIES Terminates EveryPushDelivered AllDelivered
CHECK_DEADLOCK FALSE
