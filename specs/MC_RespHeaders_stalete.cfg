SPECIFICATION MCSpec
CONSTANTS
  DELETE_MODE = "swap-remove"
  COMPLETE_ZERO = TRUE
  STRIP_TE = FALSE
  MaxOps = 3
INVARIANTS StepOK SizeExact NoOverrun SizeExactAfterFinish Refines
CHECK_DEADLOCK FALSE
