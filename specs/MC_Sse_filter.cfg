SPECIFICATION Spec
CONSTANTS
  MaxScript = 4
  MaxSpurious = 1
  FORWARD_WAKER = TRUE
  READY_DRAINS = TRUE
  FILTER_MODE = "filter"
  CHAIN_MODE = "none"
INVARIANTS TypeOK PrefixInv QueueInv DoneInv
PROPERTIES Terminates EveryPushDelivered AllDelivered
CHECK_DEADLOCK FALSE
