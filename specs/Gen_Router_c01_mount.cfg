SPECIFICATION Spec
CONSTANTS
  BOUNDARY = TRUE
  RULE = "precise"
  NApps = 2
  MaxRoutes = 1
  MaxDepth = 1
  MODE = "c01"
  FANGS = FALSE
  METHODS = FALSE
  RICH = FALSE
INVARIANT Emit
CHECK_DEADLOCK FALSE
