------------------------------ MODULE FmtGen ------------------------------
(***************************************************************************)
(* Scenario emission for C20.  A scenario is a batch description; TLC      *)
(* computes every number in it from the constants below and from the       *)
(* operators of Fmt (day numbers of calendar boundaries from               *)
(* DaysFromCivil, boundary values 10^k, 16^k, 2^k and their neighbours as  *)
(* limbs).  The harness calls the real function for every element.         *)
(***************************************************************************)
EXTENDS Fmt, Json, IOUtils

CONSTANTS Batch,       \* elements per batch
          DaysTo,      \* every day number 0 .. DaysTo
          DayPasses,   \* ... that many times, each pass at another second of day
          YearsFrom, YearsTo,   \* 1 Jan, 28 Feb, the day after, 1 Mar, 31 Dec of every one of these years
          SecDays,     \* day numbers of which every second is enumerated
          NumTo,       \* every n in 0 .. NumTo, for each of the three functions
          RandTs,      \* seeded random batches of instants
          RandNum,     \* seeded random batches of 64-bit values per function
          WireTo,      \* body sizes 0 .. WireTo and chunk sizes 8 .. WireTo of real responses
          WireBig      \* larger sizes around powers of ten / sixteen (a set)

SeedBase == IF "VERIF_SEED" \in DOMAIN IOEnv THEN atoi(IOEnv.VERIF_SEED) ELSE 1
Fns == {"itoa", "hexized", "hexized_bytes"}
Least(a, b) == IF a < b THEN a ELSE b

\* seconds of day at which whole days are sampled (both ends of the day, of an hour, of a minute, and ordinary ones)
BoundarySods == <<0, 86399, 43200, 3599, 3600, 59, 60, 86340, 1, 45296, 82800, 35999>>

DayBatches == {[kind |-> "days", from |-> k * Batch, to |-> Least(k * Batch + Batch - 1, DaysTo),
                sod |-> BoundarySods[((k + p) % 12) + 1], full |-> IF (k + p) % 16 = 0 THEN 1 ELSE 0]
               : k \in 0..(DaysTo \div Batch), p \in 0..(DayPasses - 1)}

YearGroup == Batch \div 5
YearDay(yy, k) == CASE k = 0 -> DaysFromCivil(yy, 1, 1)
                    [] k = 1 -> DaysFromCivil(yy, 2, 28)
                    [] k = 2 -> DaysFromCivil(yy, 2, 28) + 1          \* 29 Feb or 1 Mar
                    [] k = 3 -> DaysFromCivil(yy, 3, 1)
                    [] OTHER -> DaysFromCivil(yy, 12, 31)
YearBatches == {[kind |-> "daylist", sod |-> BoundarySods[(g % 12) + 1], full |-> 1,
                 days |-> LET y0 == YearsFrom + g * YearGroup
                              cnt == Least(YearGroup, YearsTo - y0 + 1)
                          IN [j \in 1..(5 * cnt) |-> YearDay(y0 + (j - 1) \div 5, (j - 1) % 5)]]
                : g \in 0..((YearsTo - YearsFrom) \div YearGroup)}

SecBatches == {[kind |-> "secs", day |-> dn, from |-> k * Batch, to |-> Least(k * Batch + Batch - 1, 86399),
                full |-> IF k % 8 = 0 THEN 1 ELSE 0] : dn \in SecDays, k \in 0..(86399 \div Batch)}

TsRandom == {[kind |-> "ts-random", seed |-> 1000 * SeedBase + k, n |-> Batch, full |-> 1] : k \in 1..RandTs}

NumRanges == {[kind |-> "num-range", fn |-> f, from |-> k * Batch, to |-> Least(k * Batch + Batch - 1, NumTo)]
              : f \in Fns, k \in 0..(NumTo \div Batch)}

\* boundary values with their neighbours, as limbs
Tri(L) == (IF L = Zero4 THEN <<>> ELSE <<SubOne(L)>>) \o <<L>> \o (IF L = Max64 THEN <<>> ELSE <<AddOne(L).limbs>>)
P2 == <<1, 2, 4, 8, 16, 32, 64, 128, 256, 512, 1024, 2048, 4096, 8192, 16384, 32768>>
Pow2(k) == [i \in 1..4 |-> IF i = k \div 16 + 1 THEN P2[(k % 16) + 1] ELSE 0]            \* k <= 63
RECURSIVE Cat(_, _, _)
Cat(F(_), k, hi) == IF k > hi THEN <<>> ELSE Tri(F(k)) \o Cat(F, k + 1, hi)
BoundarySeq == Cat(Pow10, 0, 19) \o Cat(Pow16, 0, 15) \o Cat(Pow2, 0, 63) \o Tri(Max64) \o Tri(Zero4)
NumLists == {[kind |-> "num-list", fn |-> f, vals |-> BoundarySeq] : f \in Fns}

NumRandom == {[kind |-> "num-random", fn |-> f, seed |-> 1000 * SeedBase + k, n |-> Batch] : f \in Fns, k \in 1..RandNum}

\* real responses: Content-Length / Date header, chunk-size line (the formatters as used on the wire)
AsSeq(S) == LET RECURSIVE Build(_) Build(T) == IF T = {} THEN <<>> ELSE LET x == CHOOSE x \in T : \A z \in T : x <= z IN <<x>> \o Build(T \ {x})
            IN Build(S)
WireBatches == {[kind |-> "wire-cl",    sizes |-> [j \in 1..(WireTo + 1) |-> j - 1] \o AsSeq(WireBig)],
                [kind |-> "wire-chunk", sizes |-> [j \in 1..(WireTo - 7) |-> j + 7] \o AsSeq(WireBig)]}

PrintAll(S) == \A s \in S : PrintT(ToJson(s))
ASSUME /\ PrintAll(DayBatches) /\ PrintAll(YearBatches) /\ PrintAll(SecBatches) /\ PrintAll(TsRandom)
       /\ PrintAll(NumRanges) /\ PrintAll(NumLists) /\ PrintAll(NumRandom) /\ PrintAll(WireBatches)

GSpec == Init /\ [][FALSE]_vars
=============================================================================
