----------------------------- MODULE Trace_Conn -----------------------------
(* Trace validation for C05 / C06: every line is one request sequence + segmentation executed twice on the real
   code (session-loop steps over a scripted in-memory reader; the real Session::manage over a loopback socket).
   Judged against Ideal(reqs): one response per request, in order, each with the request's own payload and
   identical to the response on a fresh connection, the session ending after `Connection: close`. *)
EXTENDS Conn, Json, IOUtils

Rec == ndJsonDeserialize(IOEnv.TRACE)
VARIABLE l

\* refused requests are answered with an error response that does not say which request it answers: k = 0
IdealKs(rs) == LET id == Ideal(rs) IN [j \in DOMAIN id |-> IF rs[id[j].k].bad THEN 0 ELSE id[j].k]
Ks(o) == [j \in DOMAIN o.resp |-> o.resp[j].k]
\* the session is ended by the server: after the response to `Connection: close`, or after an error response
EndsWithClose(rs) == LET id == Ideal(rs) IN rs[id[Len(id)].k].close
\* a server may also close the connection after an error response
ClosedAfterError(rs, o) == /\ o.resp # <<>> /\ Len(o.resp) =< Len(IdealKs(rs)) /\ Ks(o) = SubSeq(IdealKs(rs), 1, Len(o.resp))
                           /\ o.resp[Len(o.resp)].k = 0 /\ o.end \in {"eof", "server-closed", "server-reset", "write-failed"}
RespOKs(o) == \A j \in DOMAIN o.resp : IF o.resp[j].k = 0 THEN o.resp[j].status >= 400
                                          ELSE o.resp[j].body_ok /\ o.resp[j].same /\ o.resp[j].status = 200
ExecStrict(rs, o) ==
                 /\ Ks(o) = IdealKs(rs)
                 /\ RespOKs(o)
                 /\ IF EndsWithClose(rs) THEN o.end \in {"close-header", "error-close", "server-closed", "server-reset", "write-failed"}   \* whatever follows is not read (a client still writing sees a reset)
                    ELSE o.end = "eof" /\ ~o.unread
ExecOK(rs, o) == (RespOKs(o) /\ ClosedAfterError(rs, o)) \/ ExecStrict(rs, o)
IsPrefix(s, t) == Len(s) =< Len(t) /\ SubSeq(t, 1, Len(s)) = s
\* the answered requests are a strictly increasing selection of the expected ones, starting with the first
NZ(sq) == SelectSeq(sq, LAMBDA x : x # 0)
Skipping(ks, ideal) == LET a == NZ(ks)  b == NZ(ideal) IN
                       /\ \A j \in DOMAIN a : \E m \in DOMAIN b : b[m] = a[j]
                       /\ \A j \in 1..(Len(a) - 1) : a[j] < a[j + 1]
                       /\ Len(ks) - Len(a) =< Len(ideal) - Len(b)          \* no more error responses than refused requests
Outcome(rs, o) ==
  IF \E j \in DOMAIN o.resp : o.resp[j].k = 0 /\ (j > Len(IdealKs(rs)) \/ IdealKs(rs)[j] # 0) THEN "error-response"
  ELSE IF Ks(o) # IdealKs(rs) THEN (IF Skipping(Ks(o), IdealKs(rs)) THEN "later-request-not-answered"
                                    ELSE IF IsPrefix(IdealKs(rs), Ks(o)) THEN "answered-after-close" ELSE "order-or-attribution")
  ELSE IF \E j \in DOMAIN o.resp : o.resp[j].k # 0 /\ ~o.resp[j].body_ok THEN "payload"
  ELSE IF \E j \in DOMAIN o.resp : o.resp[j].k # 0 /\ ~o.resp[j].same THEN "differs-from-fresh-connection"
  ELSE IF o.unread /\ ~EndsWithClose(rs) THEN "input-left-unread" ELSE "end-state-" \o o.end
\* events of the real session loop (cfg(ohkami_verif) hooks): one parsed/handled/sent per answered request
CountEv(evs, name, b) == Cardinality({j \in DOMAIN evs : evs[j][1] = name /\ evs[j][3] = b})
EventsOK(x) == LET good == Cardinality({j \in DOMAIN x.obs.tcp.resp : x.obs.tcp.resp[j].k # 0})
                   evs == x.obs.events IN
               /\ CountEv(evs, "parsed", 0) = CountEv(evs, "handled", 0)
               /\ CountEv(evs, "handled", 0) = CountEv(evs, "sent", 0)
               /\ CountEv(evs, "sent", 0) >= good
               /\ CountEv(evs, "rejected", 0) = CountEv(evs, "sent", 1)

\* empty lines in front of a request line: outside the grammar (a server may skip them, refuse the request or close), but what the
\* server does may not depend on how the bytes were cut into reads: both executions answer as the reference execution does (the same
\* bytes, every request in a read of its own), and the requests in front of it are answered as ever
Lead(r) == "lead" \in DOMAIN r /\ r.lead
HasLead(rs) == \E j \in DOMAIN rs : Lead(rs[j])
KS(o) == [j \in DOMAIN o.resp |-> <<o.resp[j].k, o.resp[j].status>>]
Upto(s) == IF \E i \in DOMAIN s : s[i][1] = 0 THEN SubSeq(s, 1, CHOOSE i \in DOMAIN s : s[i][1] = 0 /\ \A m \in 1..(i - 1) : s[m][1] # 0) ELSE s
LeadOK(rs, x) == LET j == CHOOSE j \in DOMAIN rs : Lead(rs[j]) /\ \A m \in 1..(j - 1) : ~Lead(rs[m])
                     pre == IdealKs(SubSeq(rs, 1, j - 1)) IN
                 \* (over the socket a server that closes with input unread resets the connection, and responses already written may be lost
                 \*  to the client: there the responses received are a prefix of the reference's)
                 \* (a server that answers the request with an error response and goes on reads the rest of its bytes as it reads what follows
                 \*  any refused request: where that one ends is not defined by its bytes -- see BadEnds in ConnGen --, so the executions are
                 \*  compared up to and including the first error response)
                 /\ Upto(KS(x.obs.mem)) = Upto(KS(x.obs.ref)) /\ IsPrefix(Upto(KS(x.obs.tcp)), Upto(KS(x.obs.ref)))
                 /\ IsPrefix(pre, Ks(x.obs.ref))
                 /\ \A o \in {x.obs.mem, x.obs.tcp} : \A m \in 1..Len(pre) : m \in DOMAIN o.resp => (o.resp[m].body_ok /\ o.resp[m].same /\ o.resp[m].status = 200)
ScnClass(rs, cs) == IF Coalesced(rs, cs) THEN "coalesced" ELSE IF HeadSplit(rs, cs) THEN "head-split" ELSE "aligned-or-body-split"
Judge(x) ==
  IF x.obs.kind # "conn" THEN [ok |-> FALSE, sig |-> [class |-> x.obs.kind, where |-> x.obs.where]]
  ELSE LET rs == x.scn.reqs
           cs == {x.scn.cuts[j] : j \in DOMAIN x.scn.cuts}
           m == ExecOK(rs, x.obs.mem)  t == ExecOK(rs, x.obs.tcp) IN
       IF HasLead(rs) THEN (IF LeadOK(rs, x) THEN [ok |-> TRUE, sig |-> [class |-> "ok"]]
                            ELSE [ok |-> FALSE, sig |-> [class |-> ScnClass(rs, cs), outcome |-> "depends-on-the-reads-(empty-lines-before-a-request)", exec |-> "any"]])
       ELSE IF m /\ t /\ EventsOK(x) THEN [ok |-> TRUE, sig |-> [class |-> "ok"]]
       ELSE IF m /\ t THEN [ok |-> FALSE, sig |-> [class |-> ScnClass(rs, cs), outcome |-> "session-events-inconsistent", exec |-> "tcp"]]
       ELSE [ok |-> FALSE, sig |-> [class |-> ScnClass(rs, cs),
                                    outcome |-> IF ~m THEN Outcome(rs, x.obs.mem) ELSE Outcome(rs, x.obs.tcp),
                                    exec |-> IF ~m /\ ~t THEN "both" ELSE IF ~m THEN "mem" ELSE "tcp"]]
TInitAll == l = 1 /\ reqs = <<>> /\ cuts = {} /\ inbox = <<>> /\ buf = <<>> /\ pc = "trace" /\ cur = NoCur /\ resp = <<>> /\ dropped = FALSE
TNextAll == /\ l <= Len(Rec) /\ l' = l + 1 /\ UNCHANGED vars
            /\ LET j == Judge(Rec[l]) IN PrintT(ToJson([t |-> "VERDICT", id |-> Rec[l].id, ok |-> j.ok, sig |-> j.sig]))
=============================================================================
