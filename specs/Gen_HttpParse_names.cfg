SPECIFICATION Spec
CONSTANTS
  MaxSegs = 2
  MaxPairs = 2
  MaxHeaders = 3
  FAMILY = "names"
INVARIANT Emit
CHECK_DEADLOCK FALSE
