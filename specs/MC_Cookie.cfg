SPECIFICATION Spec
CONSTANTS
  MaxLen = 1
  MaxCookies = 2
INVARIANTS JarInv SetInv
CHECK_DEADLOCK FALSE
