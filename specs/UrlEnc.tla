------------------------------- MODULE UrlEnc -------------------------------
(***************************************************************************)
(* C09 - URL-encoded (application/x-www-form-urlencoded / query string)    *)
(* serialization round-trips and decodes per percent-encoding rules.       *)
(*                                                                         *)
(* Layer (a), the oracle, is written on *bytes* and *code points* (both    *)
(* naturals): a reference UTF-8 encoder/decoder, a reference RFC 3986      *)
(* percent-encoder/decoder, the split on raw `&` / `=`.  The trace spec    *)
(* evaluates these operators on the concrete wire text of every            *)
(* observation, so the verdict never depends on Rust code other than the   *)
(* function under test.                                                    *)
(*                                                                         *)
(* Scenario *generation* works on character-class tokens (section          *)
(* "vocabulary"); the harness picks a representative code point for every  *)
(* token, and ClassOf maps an observed code point back onto its class so   *)
(* that the trace spec can also check that the harness concretised the     *)
(* scenario it was given.                                                  *)
(*                                                                         *)
(* Layer (b): an implementation-shaped model of ohkami's key/value section *)
(* walker (`next_section` with its Key/Value side flag, `AmpersandSeparated`)*)
(* and of its serializer's `serialize_str` / `serialize_char`; MC_UrlEnc   *)
(* checks it against the oracle, deviations are named.                     *)
(***************************************************************************)
EXTENDS Integers, Sequences, FiniteSets

\* ------------------------------------------------------------------ helpers
RECURSIVE FlatFrom(_, _)
FlatFrom(ss, i) == IF i > Len(ss) THEN <<>> ELSE ss[i] \o FlatFrom(ss, i + 1)
Flat(ss) == FlatFrom(ss, 1)

AMP == 38
EQS == 61
PCT == 37

IsDigit(b) == b >= 48 /\ b <= 57
IsAlnum(b) == IsDigit(b) \/ (b >= 65 /\ b <= 90) \/ (b >= 97 /\ b <= 122)

HexDigit(n, up) == IF n < 10 THEN 48 + n ELSE (IF up THEN 55 ELSE 87) + n
HexVal(b) == IF IsDigit(b) THEN b - 48
             ELSE IF b >= 65 /\ b <= 70 THEN b - 55
             ELSE IF b >= 97 /\ b <= 102 THEN b - 87
             ELSE -1

\* ------------------------------------------------------------------ UTF-8 (Unicode 15, table 3-7)
Utf8(cp) == IF cp < 128 THEN <<cp>>
            ELSE IF cp < 2048 THEN <<192 + (cp \div 64), 128 + (cp % 64)>>
            ELSE IF cp < 65536 THEN <<224 + (cp \div 4096), 128 + ((cp \div 64) % 64), 128 + (cp % 64)>>
            ELSE <<240 + (cp \div 262144), 128 + ((cp \div 4096) % 64), 128 + ((cp \div 64) % 64), 128 + (cp % 64)>>
Utf8Bytes(s) == Flat([i \in 1..Len(s) |-> Utf8(s[i])])

RECURSIVE U8From(_, _)
U8From(bs, i) ==
  IF i > Len(bs) THEN <<>> ELSE
  LET b == bs[i]
      C(k) == i + k <= Len(bs) /\ bs[i + k] >= 128 /\ bs[i + k] <= 191
      c(k) == bs[i + k] - 128
  IN IF b < 128 THEN <<b>> \o U8From(bs, i + 1)
     ELSE IF b >= 194 /\ b <= 223 /\ C(1)
       THEN <<(b - 192) * 64 + c(1)>> \o U8From(bs, i + 2)
     ELSE IF b >= 224 /\ b <= 239 /\ C(1) /\ C(2) /\ (b = 224 => bs[i + 1] >= 160) /\ (b = 237 => bs[i + 1] <= 159)
       THEN <<(b - 224) * 4096 + c(1) * 64 + c(2)>> \o U8From(bs, i + 3)
     ELSE IF b >= 240 /\ b <= 244 /\ C(1) /\ C(2) /\ C(3) /\ (b = 240 => bs[i + 1] >= 144) /\ (b = 244 => bs[i + 1] <= 143)
       THEN <<(b - 240) * 262144 + c(1) * 4096 + c(2) * 64 + c(3)>> \o U8From(bs, i + 4)
     ELSE <<-1>>
\* [ok |-> the bytes are well-formed UTF-8, v |-> the code points]
U8Dec(bs) == LET r == U8From(bs, 1) IN [ok |-> \A i \in 1..Len(r) : r[i] >= 0, v |-> r]

\* ------------------------------------------------------------------ RFC 3986 percent-coding
Esc(b, up) == <<PCT, HexDigit(b \div 16, up), HexDigit(b % 16, up)>>
\* the canonical producer: every byte that is not an ASCII letter or digit is escaped
EncodeBytes(bs) == Flat([i \in 1..Len(bs) |-> IF IsAlnum(bs[i]) THEN <<bs[i]>> ELSE Esc(bs[i], TRUE)])
EncodeStr(s) == EncodeBytes(Utf8Bytes(s))

IsEscAt(bs, i) == bs[i] = PCT /\ i + 2 <= Len(bs) /\ HexVal(bs[i + 1]) >= 0 /\ HexVal(bs[i + 2]) >= 0
RECURSIVE PctFrom(_, _)
PctFrom(bs, i) == IF i > Len(bs) THEN <<>>
                  ELSE IF IsEscAt(bs, i) THEN <<16 * HexVal(bs[i + 1]) + HexVal(bs[i + 2])>> \o PctFrom(bs, i + 3)
                  ELSE <<bs[i]>> \o PctFrom(bs, i + 1)
PctDecode(bs) == PctFrom(bs, 1)
\* every `%` introduces an escape (a hex digit is never `%`, so this is exact)
WellFormedPct(bs) == \A i \in 1..Len(bs) : bs[i] = PCT => IsEscAt(bs, i)

DecodeStr(bs) == U8Dec(PctDecode(bs))

\* ------------------------------------------------------------------ key=value&... texts
RECURSIVE SplitFrom(_, _, _, _)
SplitFrom(bs, sep, i, cur) == IF i > Len(bs) THEN <<cur>>
                              ELSE IF bs[i] = sep THEN <<cur>> \o SplitFrom(bs, sep, i + 1, <<>>)
                              ELSE SplitFrom(bs, sep, i + 1, Append(cur, bs[i]))
Split(bs, sep) == SplitFrom(bs, sep, 1, <<>>)
Count(bs, b) == Cardinality({i \in 1..Len(bs) : bs[i] = b})
IndexOf(bs, b) == IF \E i \in 1..Len(bs) : bs[i] = b THEN CHOOSE i \in 1..Len(bs) : bs[i] = b /\ \A j \in 1..(i - 1) : bs[j] # b ELSE 0

Parts(text) == IF text = <<>> THEN <<>> ELSE Split(text, AMP)
PartOK(p) == Count(p, EQS) = 1 /\ p[1] # EQS /\ WellFormedPct(p)
\* the texts the second sentence of the property quantifies over
WellFormed(text) == \A i \in 1..Len(Parts(text)) : PartOK(Parts(text)[i])

PairOf(p) == LET e == IndexOf(p, EQS) IN
             [k |-> DecodeStr(SubSeq(p, 1, e - 1)), v |-> DecodeStr(SubSeq(p, e + 1, Len(p)))]
\* THE ORACLE of the decoding half: the key/value pairs denoted by a text
RefPairs(text) == [i \in 1..Len(Parts(text)) |-> PairOf(Parts(text)[i])]
AllUtf8(ps) == \A i \in 1..Len(ps) : ps[i].k.ok /\ ps[i].v.ok
Plain(ps) == [i \in 1..Len(ps) |-> [k |-> ps[i].k.v, v |-> ps[i].v.v]]

\* reference producer of a pair list (keys and values are code-point strings)
RECURSIVE JoinFrom(_, _, _)
JoinFrom(ss, sep, i) == IF i > Len(ss) THEN <<>> ELSE (IF i = 1 THEN <<>> ELSE <<sep>>) \o ss[i] \o JoinFrom(ss, sep, i + 1)
Join(ss, sep) == JoinFrom(ss, sep, 1)
EncodePairs(ps) == Join([i \in 1..Len(ps) |-> EncodeStr(ps[i].k) \o <<EQS>> \o EncodeStr(ps[i].v)], AMP)

\* ------------------------------------------------------------------ vocabulary: character classes
Classes == {"al", "sp", "amp", "eq", "pct", "plus", "comma", "slash", "unres", "res", "punct", "ctl", "nul", "u2", "u3", "u4"}
ClassOf(cp) == IF cp = 0 THEN "nul"
               ELSE IF cp < 32 \/ cp = 127 THEN "ctl"
               ELSE IF cp = 32 THEN "sp"
               ELSE IF cp = 38 THEN "amp"
               ELSE IF cp = 61 THEN "eq"
               ELSE IF cp = 37 THEN "pct"
               ELSE IF cp = 43 THEN "plus"
               ELSE IF cp = 44 THEN "comma"
               ELSE IF cp = 47 THEN "slash"
               ELSE IF IsAlnum(cp) THEN "al"
               ELSE IF cp \in {45, 46, 95, 126} THEN "unres"
               ELSE IF cp \in {33, 36, 39, 40, 41, 42, 58, 59, 63, 64} THEN "res"   \* ! $ ' ( ) * : ; ? @
               ELSE IF cp < 128 THEN "punct"                                           \* " # < > [ \ ] ^ ` { | }
               ELSE IF cp < 2048 THEN "u2"
               ELSE IF cp < 65536 THEN "u3"
               ELSE "u4"
ClassesOf(s) == [i \in 1..Len(s) |-> ClassOf(s[i])]

\* which classes may be written raw (unescaped) inside a key or value without changing the split,
\* and without making the text illegal where it travels (ctx "query": inside a request line)
RawOK(c, ctx) == /\ c \notin {"amp", "eq", "pct"}
                 /\ (ctx = "query" => c \in {"al", "plus", "comma", "slash", "unres", "res"})

\* ------------------------------------------------------------------ catalogue of target types
\* (mirrored by the Rust types compiled into harness/src/urlenc.rs; field order = declaration order)
F(f, k) == [f |-> f, k |-> k]
Catalogue == [
  Ints   |-> <<F("a", "i8"), F("b", "i16"), F("c", "i32"), F("d", "i64"), F("e", "u8"), F("f", "u16"),
               F("g", "u32"), F("h", "u64"), F("i", "isize"), F("j", "usize")>>,
  Floats |-> <<F("x", "f32"), F("y", "f64")>>,
  Scal   |-> <<F("b", "bool"), F("s", "str"), F("u_n", "i32")>>,
  Str1   |-> <<F("s", "str")>>,
  Str2   |-> <<F("s", "str"), F("t", "str")>>,
  Ch     |-> <<F("c", "char"), F("z", "u8")>>,
  Opt    |-> <<F("o", "optstr"), F("p", "optu32"), F("z", "u8")>>,
  OptEnd |-> <<F("z", "u8"), F("o", "optstr")>>,
  En     |-> <<F("e", "enum"), F("s", "str")>>,
  Nt     |-> <<F("id", "ntu32"), F("name", "ntstr")>>,
  SeqS   |-> <<F("v", "vecstr"), F("z", "u8")>>,
  SeqN   |-> <<F("w", "vecu32")>>,
  Seq2   |-> <<F("v", "vecstr"), F("w", "vecu32")>>,          \* two sequences in one value
  TsSeq  |-> <<F("t", "tup2u32"), F("w", "vecu32")>>,         \* the same through a tuple struct `P2(u32, u32)`
  TupSeq |-> <<F("t", "tup2u32"), F("w", "vecu32")>>,         \* a tuple `(u32, u32)` (a sequence of fixed length to serde) before a sequence
  Map    |-> <<>> ]
NameCp == [a |-> <<97>>, b |-> <<98>>, c |-> <<99>>, d |-> <<100>>, e |-> <<101>>, f |-> <<102>>, g |-> <<103>>,
           h |-> <<104>>, i |-> <<105>>, j |-> <<106>>, x |-> <<120>>, y |-> <<121>>, s |-> <<115>>, t |-> <<116>>,
           u_n |-> <<117, 95, 110>>, z |-> <<122>>, o |-> <<111>>, p |-> <<112>>, id |-> <<105, 100>>,
           name |-> <<110, 97, 109, 101>>, v |-> <<118>>, w |-> <<119>>]
IntKinds == {"i8", "i16", "i32", "i64", "u8", "u16", "u32", "u64", "isize", "usize"}
SymKinds == IntKinds \cup {"bool", "f32", "f64", "enum", "ntu32", "optu32", "vecu32", "tup2u32"}   \* values owned by the harness' tables
OptKinds == {"optstr", "optu32"}
SeqKinds == {"vecstr", "vecu32", "tup2u32"}

\* ------------------------------------------------------------------ layer (b): ohkami's section walker
\* next_section: the next `=`/`&`; on the Key side it must be `=` (and not at 0), on the Value side `&` or end.
NextPunc(inp) == IF \E i \in 1..Len(inp) : inp[i] \in {EQS, AMP}
                 THEN CHOOSE i \in 1..Len(inp) : inp[i] \in {EQS, AMP} /\ \A j \in 1..(i - 1) : inp[j] \notin {EQS, AMP}
                 ELSE 0
Rest(inp, n) == SubSeq(inp, n + 1, Len(inp))
ImplSection(inp, side) ==
  LET n == NextPunc(inp) IN
  IF side = "key"
    THEN IF n = 0 \/ n = 1 \/ inp[n] # EQS THEN [ok |-> FALSE, sec |-> <<>>, rest |-> inp]
         ELSE [ok |-> TRUE, sec |-> SubSeq(inp, 1, n - 1), rest |-> Rest(inp, n - 1)]
    ELSE IF n = 0 THEN [ok |-> TRUE, sec |-> inp, rest |-> <<>>]
         ELSE IF inp[n] # AMP THEN [ok |-> FALSE, sec |-> <<>>, rest |-> inp]
         ELSE [ok |-> TRUE, sec |-> SubSeq(inp, 1, n - 1), rest |-> Rest(inp, n - 1)]
\* AmpersandSeparated into a string map: [ok, pairs]
RECURSIVE ImplMapFrom(_, _)
ImplMapFrom(inp, first) ==
  IF inp = <<>> THEN [ok |-> TRUE, ps |-> <<>>] ELSE
  IF ~first /\ inp[1] # AMP THEN [ok |-> FALSE, ps |-> <<>>] ELSE
  LET in1 == IF first THEN inp ELSE Tail(inp)
      k == ImplSection(in1, "key") IN
  IF ~k.ok \/ ~DecodeStr(k.sec).ok THEN [ok |-> FALSE, ps |-> <<>>] ELSE
  LET v == ImplSection(Tail(k.rest), "value") IN        \* k.rest starts with `=` by construction
  IF ~v.ok \/ ~DecodeStr(v.sec).ok THEN [ok |-> FALSE, ps |-> <<>>] ELSE
  LET more == ImplMapFrom(v.rest, FALSE) IN
  [ok |-> more.ok, ps |-> <<[k |-> DecodeStr(k.sec).v, v |-> DecodeStr(v.sec).v]>> \o more.ps]
ImplMap(text) == ImplMapFrom(text, TRUE)

\* serializer: strings are percent-encoded with the NON_ALPHANUMERIC set, chars are pushed raw
ImplSerStr(s) == EncodeStr(s)
ImplSerChar(cp) == Utf8(cp)
\* deserialize_char: a Value-side section, percent-decoded, exactly one code point
ImplDeChar(inp) == LET v == ImplSection(inp, "value") IN
                   IF ~v.ok THEN [ok |-> FALSE, cp |-> 0, rest |-> inp]
                   ELSE LET d == DecodeStr(v.sec) IN
                        IF d.ok /\ Len(d.v) = 1 THEN [ok |-> TRUE, cp |-> d.v[1], rest |-> v.rest]
                        ELSE [ok |-> FALSE, cp |-> 0, rest |-> inp]
\* named deviation of the design: the characters a raw char field cannot carry
CharRawDeviation(cp) == cp \in {AMP, EQS}
=============================================================================
