SPECIFICATION Spec
CONSTANTS
  BOUNDARY = FALSE
  RULE = "precise"
  MaxP = 2
  MaxC = 0
  WithMount = FALSE
INVARIANTS Dispatch ScopeAndOrder
CHECK_DEADLOCK FALSE
