SPECIFICATION GSpec
CONSTANTS
  PER_REQUEST_DEADLINE = FALSE
  EAGER_CANCEL = TRUE
  MARGIN = 2
  SS = {20}
  TD = {0, 3, 4, 7, 12, 16}
  PRE = {0, 3}
  POST = {0, 2, 4}
  SD = {2, 3, 5, 9}
  ATS = {0, 2, 5}
  GAPS = {0, 2, 4, 6, 10}
  FINS = {0, 1, 4, 8}
  NAPP = 3
  NSUB = 2
  NLOC = 1
  NSCRIPT = 3
  NREQ = 4
  MNT = TRUE
CHECK_DEADLOCK FALSE
