SPECIFICATION GSpec
CONSTANTS
  PROFILE = "deep"
  MaxFiles = 2
  INDEX_OWN_PATH = TRUE
  FIX_INDEX_OWN = FALSE
  FIX_DIRNAME = FALSE
  FIX_LENGTH = FALSE
  SORT = "reverse"
  KnownDeviations = {"index-own-path-not-registered", "dirname-extension-stripped", "declared-length-0"}
  MOUNT_SET = "all"
  EMIT_MIN = 1
INVARIANT Refines
CHECK_DEADLOCK FALSE
