SPECIFICATION GSpec
CONSTANTS
  PROFILE = "deep"
  MaxFiles = 2
  INDEX_OWN_PATH = TRUE
  FIX_INDEX_OWN = TRUE
  FIX_DIRNAME = TRUE
  FIX_LENGTH = TRUE
  SORT = "reverse"
  KnownDeviations = {}
  MOUNT_SET = "all"
  EMIT_MIN = 1
INVARIANT Refines
CHECK_DEADLOCK FALSE
