SPECIFICATION TSpec
CONSTANTS
  MaxScript = 64
  MaxSpurious = 1000000
  FORWARD_WAKER = TRUE
  READY_DRAINS = TRUE
  FILTER_MODE = "filter"
  CHAIN_MODE = "chain"
INVARIANT TraceInv
CHECK_DEADLOCK FALSE
