SPECIFICATION TSpec
CONSTANTS
  MaxScript = 64
  MaxSpurious = 1000000
  FORWARD_WAKER = TRUE
  READY_DRAINS = TRUE
INVARIANT TraceInv
CHECK_DEADLOCK FALSE
