SPECIFICATION TSpec
CONSTANTS
  DELETE_MODE = "swap-remove"
  COMPLETE_ZERO = TRUE
CHECK_DEADLOCK FALSE
