SPECIFICATION TSpec
CONSTANTS
  DELETE_MODE = "swap-remove"
  COMPLETE_ZERO = TRUE
  STRIP_TE = TRUE
CHECK_DEADLOCK FALSE
