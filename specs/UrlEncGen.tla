----------------------------- MODULE UrlEncGen -----------------------------
(***************************************************************************)
(* Scenario emission for C09 (one JSON record per scenario).               *)
(*                                                                         *)
(*  mode "rt"   a value of a catalogue type, to be serialized by the real  *)
(*              `to_string` and read back by the real `from_bytes`.        *)
(*              val = <<[f, k, key, v]>>; v is a sequence of elements      *)
(*              (0 = None / empty Vec, 1 = scalar / Some, n = Vec), each   *)
(*              element a sequence of class tokens, or one "#symbol" whose *)
(*              meaning (boundary number, variant ...) the harness owns.   *)
(*  mode "dec"  a wire text given as pairs of wire strings; a wire token   *)
(*              is [c |-> class | "sym", e |-> "r" raw | "U" %XX | "L" %xx *)
(*              | "M" alternating, s |-> symbol]; decoded by the real code  *)
(*              into the catalogue type `ty`, through `from_bytes`         *)
(*              (ctx "body") or through a real Request's `query.parse`     *)
(*              (ctx "query").                                             *)
(*  mode "iter" a query text read through Request::query.iter().           *)
(***************************************************************************)
EXTENDS UrlEnc, TLC, Json

CONSTANTS Families,   \* subset of {"rt", "dec", "iter"}
          RtLen,      \* longest string (tokens) in the single-string round-trip type
          RtLen2,     \* ... in the multi-field round-trip types
          VecMax,     \* longest sequence
          DecLen,     \* longest wire string in decode scenarios
          IterLen,    \* longest value in single-pair iterator scenarios
          IterCls     \* classes used in the multi-pair iterator scenarios

TokStr(n) == UNION {[1..k -> Classes] : k \in 0..n}
One(x) == <<x>>
IntSyms == {"#0", "#1", "#min", "#max"}
FloatSyms == {"#0", "#-0", "#1.5", "#-2.5e-3", "#max", "#minpos", "#nan", "#inf", "#-inf"}
EnumSyms == {"#A", "#Bee", "#dark_red"}

\* ------------------------------------------------------------------ round trip
RtVals(k, n) ==
  CASE k = "bool" -> {One(<<"#true">>), One(<<"#false">>)}
    [] k \in IntKinds \cup {"ntu32"} -> {One(<<s>>) : s \in IntSyms}
    [] k \in {"f32", "f64"} -> {One(<<s>>) : s \in FloatSyms}
    [] k \in {"str", "ntstr"} -> {One(s) : s \in TokStr(n)}
    [] k = "char" -> {One(<<c>>) : c \in Classes}
    [] k = "optstr" -> {<<>>} \cup {One(s) : s \in TokStr(n)}
    [] k = "optu32" -> {<<>>, One(<<"#0">>), One(<<"#max">>)}
    [] k = "enum" -> {One(<<s>>) : s \in EnumSyms}
    [] k = "vecstr" -> UNION {[1..m -> TokStr(1)] : m \in 0..VecMax}
    [] k = "vecu32" -> UNION {[1..m -> {<<"#0">>, <<"#7">>, <<"#max">>}] : m \in 0..VecMax}
    [] k = "tup2u32" -> [1..2 -> {<<"#0">>, <<"#7">>, <<"#max">>}]

RECURSIVE RtProd(_, _, _)
RtProd(fs, i, n) == IF i > Len(fs) THEN {<<>>}
                    ELSE {<<[f |-> fs[i].f, k |-> fs[i].k, key |-> <<>>, v |-> v]>> \o rest : v \in RtVals(fs[i].k, n), rest \in RtProd(fs, i + 1, n)}

IntsVals(u_) == LET fs == Catalogue["Ints"] IN
            {[i \in 1..Len(fs) |-> [f |-> fs[i].f, k |-> fs[i].k, key |-> <<>>, v |-> One(<<IF i = j THEN s1 ELSE s0>>)]]
               : s0 \in IntSyms, s1 \in IntSyms, j \in 1..Len(fs)}
MapCls == {"al", "sp", "amp", "eq", "pct", "plus", "u3", "comma"}
Entry(k, v) == [f |-> "", k |-> "entry", key |-> k, v |-> One(v)]
MapVals(u_) == {<<>>}
           \cup {<<Entry(k, v)>> : k \in TokStr(1), v \in TokStr(1)}
           \cup {<<Entry(<<kk[1]>>, v1), Entry(<<kk[2]>>, v2)>> : kk \in {q \in MapCls \X MapCls : q[1] # q[2]},
                                                            v1 \in {<<>>} \cup {<<c>> : c \in MapCls}, v2 \in {<<>>, <<"al">>, <<"amp">>}}
\* a map that hands its entries to the serializer in insertion order (not in key order): also the empty key in second place
OMapVals(u_) == MapVals(0)
           \cup UNION {{<<Entry(k1, v1), Entry(k2, v2)>> : k2 \in {<<>>, <<"al">>} \ {k1}, v1 \in {<<>>, <<"al">>}, v2 \in {<<>>, <<"amp">>}} : k1 \in {<<>>, <<"al">>, <<"eq">>}}
RtTypeVals(ty) == CASE ty = "Ints" -> IntsVals(0)
                    [] ty = "Map" -> MapVals(0)
                    [] ty = "OMap" -> OMapVals(0)
                    [] ty = "Str1" -> RtProd(Catalogue[ty], 1, RtLen)
                    [] OTHER -> RtProd(Catalogue[ty], 1, RtLen2)
RtTypes == {"Ints", "Floats", "Scal", "Str1", "Str2", "Ch", "Opt", "OptEnd", "En", "Nt", "SeqS", "SeqN", "Seq2", "TupSeq", "TsSeq", "Map", "OMap"}

\* ------------------------------------------------------------------ decode
WTok(ctx) == {[c |-> c, e |-> e, s |-> ""] : c \in Classes, e \in {"U", "L"}}
             \cup {[c |-> c, e |-> "r", s |-> ""] : c \in {d \in Classes : RawOK(d, ctx)}}
WStr(ctx, n) == UNION {[1..k -> WTok(ctx)] : k \in 0..n}
SymTok(s, e) == [c |-> "sym", e |-> e, s |-> s]
SymSp == {"r", "U", "L", "M"}
\* every symbol raw; the symbols in `escd` also in every escaped spelling (all %XX, all %xx, alternating)
Syms(k, set, escd) == {<<SymTok(k \o ":" \o s, "r")>> : s \in set} \cup {<<SymTok(k \o ":" \o s, e)>> : s \in escd, e \in SymSp \ {"r"}}
\* wire values a field of kind k may be given (all are valid literals of the kind)
DecVals(k, ctx, n) ==
  CASE k = "bool" -> Syms("bool", {"true", "false"}, {"true"})
    [] k \in IntKinds -> Syms(k, {"0", "1", "min", "max"}, {"min"})
    [] k = "ntu32" -> Syms("u32", {"0", "max"}, {"max"})
    [] k = "optu32" -> Syms("u32", {"0", "max"}, {"0"})
    \* ("=<text>": the wire carries this decimal text as it is -- more digits than a double holds, just above the midpoint of two neighbouring
    \*  single-precision values: the field is the float nearest to the TEXT, not the float nearest to the double nearest to the text)
    [] k \in {"f32", "f64"} -> Syms(k, {"0", "1.5", "-2.5e-3", "max", "nan", "=16777217.0000000001", "=1.000000059604644775390625000000000001"},
                                        {"-2.5e-3", "nan", "=16777217.0000000001", "=1.000000059604644775390625000000000001"})
    [] k \in {"str", "ntstr", "optstr"} -> WStr(ctx, n)
    [] k = "char" -> {w \in WStr(ctx, 1) : Len(w) = 1}
    [] k = "enum" -> Syms("enum", {"A", "Bee", "dark_red"}, {"Bee", "dark_red"})
\* a few values per kind for the scenarios that vary order / extra pairs / absence
DecFew(k, ctx) ==
  CASE k \in {"str", "ntstr", "optstr"} -> {<<>>, <<[c |-> "al", e |-> "r", s |-> ""]>>, <<[c |-> "amp", e |-> "U", s |-> ""], [c |-> "u3", e |-> "L", s |-> ""]>>}
    [] k = "char" -> {<<[c |-> "al", e |-> "r", s |-> ""]>>, <<[c |-> "eq", e |-> "L", s |-> ""]>>}
    [] k = "bool" -> {<<SymTok("bool:true", "r")>>}
    [] k \in IntKinds -> {<<SymTok(k \o ":max", "r")>>}
    [] k \in {"ntu32", "optu32"} -> {<<SymTok("u32:1", "r")>>}
    [] k \in {"f32", "f64"} -> {<<SymTok(k \o ":1.5", "r")>>}
    [] k = "enum" -> {<<SymTok("enum:Bee", "r")>>}

Key(name, e) == <<SymTok("name:" \o name, e)>>
Pair(k, v) == [k |-> k, v |-> v]

RECURSIVE DecProd(_, _, _, _, _)
\* identity order, no extra pair, every value of every field (key spelling ke)
DecProd(fs, i, ctx, n, ke) ==
  IF i > Len(fs) THEN {<<>>}
  ELSE {<<Pair(Key(fs[i].f, ke), v)>> \o rest : v \in DecVals(fs[i].k, ctx, n), rest \in DecProd(fs, i + 1, ctx, n, ke)}

Perms(n) == {p \in [1..n -> 1..n] : \A i \in 1..n : \A j \in 1..n : i # j => p[i] # p[j]}
RECURSIVE FewProd(_, _, _)
\* per field: absent (options only) or one of a few values
FewProd(fs, i, ctx) ==
  IF i > Len(fs) THEN {<<>>}
  ELSE {<<c>> \o rest : c \in {[present |-> TRUE, f |-> fs[i].f, v |-> v] : v \in DecFew(fs[i].k, ctx)}
                            \cup (IF fs[i].k \in OptKinds THEN {[present |-> FALSE, f |-> fs[i].f, v |-> <<>>]} ELSE {}),
                        rest \in FewProd(fs, i + 1, ctx)}
RECURSIVE PairsOf(_, _, _, _)
PairsOf(choice, perm, i, ke) ==
  IF i > Len(perm) THEN <<>>
  ELSE (IF choice[perm[i]].present THEN <<Pair(Key(choice[perm[i]].f, ke), choice[perm[i]].v)>> ELSE <<>>) \o PairsOf(choice, perm, i + 1, ke)
\* (the third one: an unknown key whose value is not text at all -- escapes that do not form UTF-8; it is ignored like the others)
ExtraPairs(ctx) == {Pair(Key("zz", "r"), <<>>), Pair(Key("zz", "U"), <<[c |-> "al", e |-> "r", s |-> ""]>>),
                    Pair(Key("zq", "r"), <<SymTok("lit:caf%E9%FF%80", "r")>>),
                    Pair(<<[c |-> "u2", e |-> "L", s |-> ""]>>, <<[c |-> "amp", e |-> "U", s |-> ""], [c |-> "eq", e |-> "L", s |-> ""]>>)}
InsertAt(ps, k, x) == SubSeq(ps, 1, k) \o <<x>> \o SubSeq(ps, k + 1, Len(ps))
Shaped(ty, ctx) ==
  LET fs == Catalogue[ty]
      perms == IF Len(fs) <= 3 THEN Perms(Len(fs)) ELSE {[i \in 1..Len(fs) |-> i], [i \in 1..Len(fs) |-> Len(fs) + 1 - i]}
      base == {PairsOf(ch, p, 1, ke) : ch \in FewProd(fs, 1, ctx), p \in perms, ke \in {"r", "L"}}
  IN base \cup UNION {{InsertAt(ps, k, x) : k \in 0..Len(ps), x \in ExtraPairs(ctx)} : ps \in base}

DecTypes == {"Ints", "Floats", "Scal", "Str1", "Str2", "Ch", "Opt", "OptEnd", "En", "Nt"}
IntsDec(ctx) == LET fs == Catalogue["Ints"] IN
                {[i \in 1..Len(fs) |-> Pair(Key(fs[i].f, "r"), IF i = j THEN <<SymTok(fs[i].k \o ":" \o s, e)>> ELSE <<SymTok(fs[i].k \o ":1", "r")>>)]
                   : j \in 1..Len(fs), s \in {"0", "min", "max"}, e \in SymSp}
DecTexts(ty, ctx) == (IF ty = "Ints" THEN IntsDec(ctx)
                      ELSE IF ty \in {"Str1"} THEN DecProd(Catalogue[ty], 1, ctx, DecLen, "r") \cup DecProd(Catalogue[ty], 1, ctx, 1, "U")
                      ELSE DecProd(Catalogue[ty], 1, ctx, 1, "r"))
                     \cup Shaped(ty, ctx)
\* string map target: arbitrary keys
\* (the empty list of pairs: an empty body; in a request, a target without `?` -- read from a request object that served another request before)
MapTexts(ctx) == {<<>>} \cup {<<Pair(k, v)>> : k \in WStr(ctx, 1) \ {<<>>}, v \in WStr(ctx, 1)}
                 \cup {<<Pair(<<k1>>, v1), Pair(<<k2>>, v2)>> :
                          k1 \in {t \in WTok(ctx) : t.c \in MapCls /\ t.e # "L"}, k2 \in {t \in WTok(ctx) : t.c \in MapCls /\ t.e # "U"},
                          v1 \in {<<>>, <<[c |-> "pct", e |-> "U", s |-> ""]>>}, v2 \in {<<>>, <<[c |-> "u4", e |-> "L", s |-> ""]>>}}
\* ------------------------------------------------------------------ query iterator
ITok == {t \in WTok("query") : t.c \in IterCls /\ t.e # "L"}
ITok3 == {t \in ITok : t.c \in {"al", "amp", "eq", "u3"}}
IterTexts(u_) == {<<>>} \cup {<<Pair(k, v)>> : k \in WStr("query", 1) \ {<<>>}, v \in WStr("query", IterLen)}
             \cup {<<Pair(<<k1>>, v1), Pair(<<k2>>, v2)>> : k1 \in ITok, k2 \in ITok,
                                                            v1 \in {<<>>} \cup {<<t>> : t \in ITok}, v2 \in {<<>>} \cup {<<t>> : t \in ITok}}
             \cup {<<Pair(<<k1>>, v1), Pair(<<k2>>, v2), Pair(<<k3>>, v3)>> : k1 \in ITok3, k2 \in ITok3, k3 \in ITok3,
                        v1 \in {<<>>, <<[c |-> "al", e |-> "r", s |-> ""]>>}, v2 \in {<<>>, <<[c |-> "eq", e |-> "U", s |-> ""]>>},
                        v3 \in {<<>>, <<[c |-> "u3", e |-> "U", s |-> ""]>>}}

\* emission: nested quantifiers, no big union is ever built
ASSUME "rt" \in Families =>
         \A ty \in RtTypes : \A v \in RtTypeVals(ty) : PrintT(ToJson([mode |-> "rt", ty |-> ty, val |-> v]))
ASSUME "dec" \in Families =>
         \A ctx \in {"body", "query"} :
            /\ \A ty \in DecTypes : \A ps \in DecTexts(ty, ctx) : PrintT(ToJson([mode |-> "dec", ctx |-> ctx, ty |-> ty, pairs |-> ps]))
            /\ \A ps \in MapTexts(ctx) : PrintT(ToJson([mode |-> "dec", ctx |-> ctx, ty |-> "Map", pairs |-> ps]))
ASSUME "iter" \in Families =>
         \A ps \in IterTexts(0) : PrintT(ToJson([mode |-> "iter", ctx |-> "query", ty |-> "Iter", pairs |-> ps]))
=============================================================================
