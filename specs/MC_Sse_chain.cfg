SPECIFICATION Spec
CONSTANTS
  MaxScript = 5
  MaxSpurious = 1
  FORWARD_WAKER = TRUE
  READY_DRAINS = TRUE
  FILTER_MODE = "none"
  CHAIN_MODE = "chain"
INVARIANTS TypeOK PrefixInv QueueInv DoneInv
PROPERTIES Terminates EveryPushDelivered AllDelivered
CHECK_DEADLOCK FALSE
