SPECIFICATION GSpec
CONSTANTS
  MaxLen = 4
  MaxFaults = 2
  TOPLEN = 3
  PCTLEN = 4
  RICH = TRUE
  DECS = {"urlenc", "cookie", "multipart", "setcookie", "pct"}
INVARIANT Emit
CHECK_DEADLOCK FALSE
