SPECIFICATION Spec
CONSTANTS
  BOUNDARY = TRUE
  RULE = "precise"
  REPAIR = FALSE
  NApps = 2
  MaxRoutes = 1
  MaxDepth = 1
  MSETS = "mid"
  PSIB = TRUE
  NPOL = 1
  RICHPOL = FALSE
  RICHREQ = FALSE
  KnownDeviations = {"split-registration", "merged-apps", "param-sibling"}
INVARIANTS Refines Builds ClassAgrees
CHECK_DEADLOCK FALSE
