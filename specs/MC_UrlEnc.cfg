SPECIFICATION Spec
CONSTANTS
  MaxLen = 2
  MaxPairs = 2
  SpellSet = {"r", "U"}
INVARIANTS StrInv PairInv CharInv
CHECK_DEADLOCK FALSE
