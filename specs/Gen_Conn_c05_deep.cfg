SPECIFICATION GSpec
CONSTANTS
  BUF = 4
  HEADLOOP = TRUE
  CARRY = TRUE
  MaxReqs = 3
  MaxBody = 4
  MaxCuts = 0
  MODE = "c05"
INVARIANT Emit
CHECK_DEADLOCK FALSE
