----------------------------- MODULE SchemaRel -----------------------------
(***************************************************************************)
(* C16 - derive(Schema) describes the JSON shape that serde reads/writes.  *)
(*                                                                         *)
(* 1. vocabulary: type DEFINITIONS over the supported attribute grammar    *)
(*    (structs with serde field/container attributes, enums in the four    *)
(*    tagging modes), abstract JSON values (jv) and schema nodes.          *)
(* 2. REFERENCE of serde at the level the property needs: the rename_all   *)
(*    rules as operators over sequences of 1-character strings             *)
(*    (SerdeField, SerdeVariant, transcribed from serde_derive's           *)
(*    internals/case.rs and restated by word splitting), the value serde   *)
(*    writes for a definition (RefValue), ExpectedKeys, Required, and the  *)
(*    outcome of reading a value with one key removed (RefProbeOk).        *)
(* 3. the RELATION (layer a): SchemaMatchesSerde(def, schema, samples) =   *)
(*    Fails(..) = {}; Fails returns one record per violated fact:          *)
(*      property-missing   a key serde writes is not a property            *)
(*      property-extra     a property is a key serde never writes          *)
(*      required-mismatch  required # (serde always writes it and cannot   *)
(*                         read a value without it)                        *)
(*      value-invalid      a value serde wrote does not validate           *)
(*    Validation (Whys) covers the closed keyword set the derive can emit: *)
(*    type, properties, required, enum, oneOf/anyOf/allOf, items, $ref,    *)
(*    nullable (read leniently).                                           *)
(* 4. IdealSchema(def): what a correct derive may emit; MC_SchemaRel       *)
(*    checks that it satisfies the relation against the reference for      *)
(*    every definition of the grammar (the relation never demands the      *)
(*    impossible), and that single-fault mutants of it are rejected.       *)
(***************************************************************************)
EXTENDS Naturals, Sequences, FiniteSets, TLC

Rng(s) == {s[i] : i \in DOMAIN s}
B(b) == IF b THEN "1" ELSE "0"

\* ------------------------------------------------------------------ characters
LowerAZ == <<"a","b","c","d","e","f","g","h","i","j","k","l","m","n","o","p","q","r","s","t","u","v","w","x","y","z">>
UpperAZ == <<"A","B","C","D","E","F","G","H","I","J","K","L","M","N","O","P","Q","R","S","T","U","V","W","X","Y","Z">>
IsUpper(c) == \E i \in 1..26 : UpperAZ[i] = c
IsLower(c) == \E i \in 1..26 : LowerAZ[i] = c
ToUpper(c) == IF IsLower(c) THEN UpperAZ[CHOOSE i \in 1..26 : LowerAZ[i] = c] ELSE c
ToLower(c) == IF IsUpper(c) THEN LowerAZ[CHOOSE i \in 1..26 : UpperAZ[i] = c] ELSE c
UpperS(s) == [i \in 1..Len(s) |-> ToUpper(s[i])]
LowerS(s) == [i \in 1..Len(s) |-> ToLower(s[i])]
Replace(s, a, b) == [i \in 1..Len(s) |-> IF s[i] = a THEN b ELSE s[i]]
LowerFirst(s) == IF s = <<>> THEN s ELSE <<ToLower(s[1])>> \o Tail(s)
UpperFirst(s) == IF s = <<>> THEN s ELSE <<ToUpper(s[1])>> \o Tail(s)

Rules == {"none", "lowercase", "UPPERCASE", "PascalCase", "camelCase", "snake_case",
          "SCREAMING_SNAKE_CASE", "kebab-case", "SCREAMING-KEBAB-CASE"}

\* ------------------------------------------------------------------ serde's rename_all, field names (snake_case input)
\* transcription of RenameRule::apply_to_field
RECURSIVE PascalF(_, _)
PascalF(s, cap) == IF s = <<>> THEN <<>>
                   ELSE IF Head(s) = "_" THEN PascalF(Tail(s), TRUE)
                   ELSE IF cap THEN <<ToUpper(Head(s))>> \o PascalF(Tail(s), FALSE)
                   ELSE <<Head(s)>> \o PascalF(Tail(s), FALSE)
SerdeField(rule, s) ==
  CASE rule \in {"none", "lowercase", "snake_case"} -> s
    [] rule = "UPPERCASE" -> UpperS(s)
    [] rule = "PascalCase" -> PascalF(s, TRUE)
    [] rule = "camelCase" -> LowerFirst(PascalF(s, TRUE))
    [] rule = "SCREAMING_SNAKE_CASE" -> UpperS(s)
    [] rule = "kebab-case" -> Replace(s, "_", "-")
    [] rule = "SCREAMING-KEBAB-CASE" -> Replace(UpperS(s), "_", "-")

\* transcription of RenameRule::apply_to_variant (PascalCase input)
RECURSIVE SnakeV(_, _)
SnakeV(s, i) == IF i > Len(s) THEN <<>>
                ELSE (IF i > 1 /\ IsUpper(s[i]) THEN <<"_">> ELSE <<>>) \o <<ToLower(s[i])>> \o SnakeV(s, i + 1)
SerdeVariant(rule, s) ==
  CASE rule \in {"none", "PascalCase"} -> s
    [] rule = "lowercase" -> LowerS(s)
    [] rule = "UPPERCASE" -> UpperS(s)
    [] rule = "camelCase" -> LowerFirst(s)
    [] rule = "snake_case" -> SnakeV(s, 1)
    [] rule = "SCREAMING_SNAKE_CASE" -> UpperS(SnakeV(s, 1))
    [] rule = "kebab-case" -> Replace(SnakeV(s, 1), "_", "-")
    [] rule = "SCREAMING-KEBAB-CASE" -> Replace(UpperS(SnakeV(s, 1)), "_", "-")

\* the same rules restated by word splitting (checked equal in MC_SchemaRel: the reference against itself)
RECURSIVE SplitOn(_, _, _)       \* words of a snake_case name (empty words dropped)
SplitOn(s, sep, cur) == IF s = <<>> THEN (IF cur = <<>> THEN <<>> ELSE <<cur>>)
                        ELSE IF Head(s) = sep THEN (IF cur = <<>> THEN <<>> ELSE <<cur>>) \o SplitOn(Tail(s), sep, <<>>)
                        ELSE SplitOn(Tail(s), sep, Append(cur, Head(s)))
RECURSIVE SplitCaps(_, _)        \* words of a PascalCase name: a new word starts at every capital
SplitCaps(s, cur) == IF s = <<>> THEN (IF cur = <<>> THEN <<>> ELSE <<cur>>)
                     ELSE IF IsUpper(Head(s)) /\ cur # <<>> THEN <<cur>> \o SplitCaps(Tail(s), <<Head(s)>>)
                     ELSE SplitCaps(Tail(s), Append(cur, Head(s)))
RECURSIVE Join(_, _)
Join(ws, sep) == IF ws = <<>> THEN <<>> ELSE IF Len(ws) = 1 THEN ws[1] ELSE ws[1] \o sep \o Join(Tail(ws), sep)
MapW(Op(_), ws) == [i \in 1..Len(ws) |-> Op(ws[i])]
WordsVariant(rule, s) ==
  LET ws == SplitCaps(s, <<>>) IN
  CASE rule \in {"none", "PascalCase"} -> s
    [] rule = "lowercase" -> Join(MapW(LowerS, ws), <<>>)
    [] rule = "UPPERCASE" -> Join(MapW(UpperS, ws), <<>>)
    [] rule = "camelCase" -> LowerFirst(Join(ws, <<>>))
    [] rule = "snake_case" -> Join(MapW(LowerS, ws), <<"_">>)
    [] rule = "SCREAMING_SNAKE_CASE" -> Join(MapW(UpperS, ws), <<"_">>)
    [] rule = "kebab-case" -> Join(MapW(LowerS, ws), <<"-">>)
    [] rule = "SCREAMING-KEBAB-CASE" -> Join(MapW(UpperS, ws), <<"-">>)
\* for field names the word form only agrees when no word is empty (no leading/trailing/double `_`): serde keeps
\* nothing of an empty word under Pascal/camel but keeps the separators under kebab/upper; stated for WellSnake names
WellSnake(s) == s # <<>> /\ s[1] # "_" /\ s[Len(s)] # "_" /\ \A i \in 1..(Len(s) - 1) : ~(s[i] = "_" /\ s[i + 1] = "_")
WordsField(rule, s) ==
  LET ws == SplitOn(s, "_", <<>>) IN
  CASE rule \in {"none", "lowercase", "snake_case"} -> s
    [] rule = "UPPERCASE" -> Join(MapW(UpperS, ws), <<"_">>)
    [] rule = "PascalCase" -> Join(MapW(UpperFirst, ws), <<>>)
    [] rule = "camelCase" -> LowerFirst(Join(MapW(UpperFirst, ws), <<>>))
    [] rule = "SCREAMING_SNAKE_CASE" -> Join(MapW(UpperS, ws), <<"_">>)
    [] rule = "kebab-case" -> Join(ws, <<"-">>)
    [] rule = "SCREAMING-KEBAB-CASE" -> Join(MapW(UpperS, ws), <<"-">>)

\* ------------------------------------------------------------------ abstract JSON values (same record shape as the harness prints)
JStr(cs)  == [k |-> "string",  s |-> cs,   fields |-> <<>>, items |-> <<>>]
JInt      == [k |-> "integer", s |-> <<>>, fields |-> <<>>, items |-> <<>>]
JNull     == [k |-> "null",    s |-> <<>>, fields |-> <<>>, items |-> <<>>]
JObj(fs)  == [k |-> "object",  s |-> <<>>, fields |-> fs,   items |-> <<>>]      \* fs: sequence of [name, v]
KV(n, v)  == [name |-> n, v |-> v]
KeysOf(jv) == {f.name : f \in Rng(jv.fields)}
FieldV(jv, name) == (CHOOSE f \in Rng(jv.fields) : f.name = name).v
RECURSIVE Canon(_)            \* order-insensitive form, for comparing observed and predicted values
Canon(jv) == [k |-> jv.k, s |-> jv.s, fields |-> {<<f.name, Canon(f.v)>> : f \in Rng(jv.fields)},
              items |-> [i \in DOMAIN jv.items |-> Canon(jv.items[i])]]
RECURSIVE Has(_, _)
Has(jv, path) == path = <<>> \/ (jv.k = "object" /\ Head(path) \in KeysOf(jv) /\ Has(FieldV(jv, Head(path)), Tail(path)))
RECURSIVE At(_, _)
At(jv, path) == IF path = <<>> THEN jv ELSE At(FieldV(jv, Head(path)), Tail(path))

S_  == <<"s">>                                   \* content of every generated string
TagKey == <<"t">>
ContentKey == <<"c">>
InA == <<"i","n","_","a">>
InB == <<"i","n","_","b">>
InZ == <<"i","n","_","z">>
MyField == <<"m","y","_","f","i","e","l","d">>
NKey == <<"n">>
\* the fixed nested derived struct `Inner { in_z: String, in_b: Option<i32>, in_a: String }`: two required fields, declared in an order
\* that is not the alphabetical one, with an optional one between them
InnerFields(some) == <<KV(InZ, JStr(S_)), KV(InB, IF some THEN JInt ELSE JNull), KV(InA, JStr(S_))>>
\* the fixed fields of every struct variant `{ my_field: String, n: Option<i32> }`
\* (a struct variant may carry a `rename_all` of its own, `vra`, which renames its fields -- and only its fields)
SVKey(v, name) == IF v.vra = "none" THEN name ELSE SerdeField(v.vra, name)
SVFields(v, some) == <<KV(SVKey(v, MyField), JStr(S_)), KV(SVKey(v, NKey), IF some THEN JInt ELSE JNull)>>

\* ------------------------------------------------------------------ definitions: well-formedness (what serde_derive accepts and the renderer supports)
FieldTypes == {"str", "int", "inner"}
WFField(f) ==
  /\ f.ty \in FieldTypes \cup {"bool"} /\ f.opt \in BOOLEAN /\ f.ssif \in BOOLEAN /\ f.fdefault \in BOOLEAN /\ f.flatten \in BOOLEAN
  /\ f.skip \in {"none", "skip", "ser", "de"} /\ f.rclass \in {"none", "plain", "dash"}
  /\ (f.rclass = "none") = (f.rename = <<>>)
  /\ (f.ssif => f.opt)
  /\ ~(f.ty = "inner" /\ f.skip = "de")     \* serde ignores the whole nested value on reading: nested probes say nothing
  /\ (f.flatten => f.ty = "inner" /\ ~f.opt /\ f.rclass = "none" /\ f.skip = "none" /\ ~f.ssif /\ ~f.fdefault)

FieldKey(d, i) == LET f == d.fields[i] IN IF f.rclass # "none" THEN f.rename ELSE SerdeField(d.ra, f.name)
EverWritten(f) == f.skip \notin {"skip", "ser"}
AlwaysWritten(f) == EverWritten(f) /\ ~f.ssif
Defaultable(d, f) == f.opt \/ f.fdefault \/ d.cdefault \/ f.skip \in {"skip", "de"}
Written(f, some) == EverWritten(f) /\ ~(f.ssif /\ ~some)
FieldVal(f, some) == IF f.opt /\ ~some THEN JNull
                     ELSE CASE f.ty = "str" -> JStr(S_) [] f.ty = "int" -> JInt [] f.ty = "inner" -> JObj(InnerFields(some))
                            [] f.ty = "bool" -> [k |-> "boolean", s |-> <<>>, fields |-> <<>>, items |-> <<>>]

RECURSIVE StructFieldsFrom(_, _, _)
StructFieldsFrom(d, i, some) ==
  IF i > Len(d.fields) THEN <<>>
  ELSE LET f == d.fields[i] IN
       (IF ~Written(f, some) THEN <<>>
        ELSE IF f.flatten THEN InnerFields(some)
        ELSE <<KV(FieldKey(d, i), FieldVal(f, some))>>) \o StructFieldsFrom(d, i + 1, some)

VariantTag(d, i) == LET v == d.variants[i] IN IF v.rclass # "none" THEN v.rename ELSE SerdeVariant(d.ra, v.name)
\* struct `V { my_field, n }`, a struct variant without fields `V {}` (serde writes an empty object, not what it writes for a unit variant),
\* or newtype(inner)
PayloadFields(v, some) == IF v.shape = "struct" THEN SVFields(v, some) ELSE IF v.shape = "empty" THEN <<>> ELSE InnerFields(some)
Payload(v, some) == IF v.shape = "newtype" /\ v.payload = "str" THEN JStr(S_) ELSE JObj(PayloadFields(v, some))

\* the value serde_json::to_value yields for sample (variant vi, all options Some / all None)
RefValue(d, vi, some) ==
  IF d.kind = "struct" THEN JObj(StructFieldsFrom(d, 1, some))
  ELSE LET v == d.variants[vi]
           tag == VariantTag(d, vi) IN
       CASE d.tagging = "external" -> IF v.shape = "unit" THEN JStr(tag) ELSE JObj(<<KV(tag, Payload(v, some))>>)
         [] d.tagging = "internal" -> IF v.shape = "unit" THEN JObj(<<KV(TagKey, JStr(tag))>>)
                                       ELSE JObj(<<KV(TagKey, JStr(tag))>> \o PayloadFields(v, some))
         [] d.tagging = "adjacent" -> IF v.shape = "unit" THEN JObj(<<KV(TagKey, JStr(tag))>>)
                                       ELSE JObj(<<KV(TagKey, JStr(tag)), KV(ContentKey, Payload(v, some))>>)
         [] d.tagging = "untagged" -> IF v.shape = "unit" THEN JNull ELSE Payload(v, some)

NVariants(d) == IF d.kind = "struct" THEN 1 ELSE Len(d.variants)

\* keys serde writes at top level of a struct (over all values)
ExpectedKeys(d) == KeysOf(RefValue(d, 1, TRUE))
OwnerField(d, key) ==      \* index of the struct field that produces top-level key `key`, 0 if none
  IF \E i \in DOMAIN d.fields : ~d.fields[i].flatten /\ FieldKey(d, i) = key
    THEN CHOOSE i \in DOMAIN d.fields : ~d.fields[i].flatten /\ FieldKey(d, i) = key
  ELSE IF key \in {InA, InB, InZ} /\ \E i \in DOMAIN d.fields : d.fields[i].flatten
    THEN CHOOSE i \in DOMAIN d.fields : d.fields[i].flatten
  ELSE 0
\* serde can neither omit nor default the key (struct, top level)
Required(d, key) == LET i == OwnerField(d, key) IN
  /\ i # 0
  /\ IF d.fields[i].flatten THEN key \in {InA, InZ}
     ELSE AlwaysWritten(d.fields[i]) /\ ~Defaultable(d, d.fields[i])
\* keys serde reads but never writes (skip_serializing): a schema may or may not document them (not asserted)
ReadOnlyKeys(d) == IF d.kind # "struct" THEN {}
                   ELSE {FieldKey(d, i) : i \in {j \in DOMAIN d.fields : d.fields[j].skip = "ser" /\ ~d.fields[j].flatten}}

\* does from_value still read the same variant after the key at `path` was removed from RefValue(d, vi, some)?
InnerProbeOk(k) == k = InB                         \* in_a, in_z: String are needed, in_b: Option defaults
SVProbeOk(v, k) == k = SVKey(v, NKey)
\* a struct with a skip_serializing field that cannot be defaulted cannot read what it writes: nothing can be probed
RefRoundtrip(d) == d.kind # "struct" \/ \A i \in DOMAIN d.fields : d.fields[i].skip = "ser" => Defaultable(d, d.fields[i])
\* ... and of an untagged enum only the first unit variant is ever read back (they are all written `null`)
RefRoundtripV(d, vi) == /\ RefRoundtrip(d)
                        /\ ~(d.kind = "enum" /\ d.tagging = "untagged" /\ d.variants[vi].shape = "unit" /\ \E j \in 1..(vi - 1) : d.variants[j].shape = "unit")
RefProbeOk(d, vi, path) ==
  IF ~RefRoundtrip(d) THEN FALSE
  ELSE IF d.kind = "struct" THEN
    LET i == OwnerField(d, path[1]) IN
    IF d.fields[i].flatten THEN InnerProbeOk(path[1])
    ELSE IF Len(path) = 1 THEN Defaultable(d, d.fields[i])
    ELSE InnerProbeOk(path[2])        \* inside a nested Inner: the outer field is present, the inner key decides
  ELSE LET v == d.variants[vi]
           pk(k) == IF v.shape = "struct" THEN SVProbeOk(v, k) ELSE InnerProbeOk(k) IN
       CASE d.tagging = "external" -> Len(path) = 2 /\ pk(path[2])
         [] d.tagging = "internal" -> path[1] # TagKey /\ pk(path[1])
         [] d.tagging = "adjacent" -> Len(path) = 2 /\ pk(path[2])
         [] d.tagging = "untagged" -> pk(path[1])

RECURSIVE PathsOf(_, _, _)       \* all object-key paths of a value, to depth 3 (as the harness probes them)
PathsOf(jv, prefix, depth) ==
  IF depth = 0 \/ jv.k # "object" THEN {}
  ELSE UNION {{Append(prefix, f.name)} \cup PathsOf(f.v, Append(prefix, f.name), depth - 1) : f \in Rng(jv.fields)}

RECURSIVE SetToSeq(_)
SetToSeq(S) == IF S = {} THEN <<>> ELSE LET x == CHOOSE y \in S : TRUE IN <<x>> \o SetToSeq(S \ {x})
RefSample(d, vi, some) ==
  LET j == RefValue(d, vi, some) IN
  [v |-> vi, some |-> some, json |-> j, roundtrip |-> RefRoundtripV(d, vi),
   probes |-> SetToSeq({[path |-> p, ok |-> RefProbeOk(d, vi, p)] : p \in PathsOf(j, <<>>, 3)})]
RefSamples(d) == {RefSample(d, vi, some) : vi \in 1..NVariants(d), some \in BOOLEAN}

\* ------------------------------------------------------------------ schema nodes (same record shape as the harness prints)
Node0 == [type |-> "", ref |-> "", props |-> <<>>, reqextra |-> <<>>, enum |-> <<>>, oneOf |-> <<>>, anyOf |-> <<>>,
          allOf |-> <<>>, items |-> <<>>, nullable |-> FALSE, other |-> <<>>]
NType(t) == [Node0 EXCEPT !.type = t]
NObj(ps) == [Node0 EXCEPT !.type = "object", !.props = ps]           \* ps: sequence of [name, required, node]
P(n, r, node) == [name |-> n, required |-> r, node |-> node]
KnownTypes == {"object", "string", "integer", "number", "boolean", "array", "null"}
KindOK(k, t) == CASE t = "" -> TRUE
                  [] t = "number" -> k \in {"integer", "number"}
                  [] t \in KnownTypes -> k = t
                  [] OTHER -> FALSE
PropNames(n) == {p.name : p \in Rng(n.props)}
PropOf(n, name) == CHOOSE p \in Rng(n.props) : p.name = name

\* ------------------------------------------------------------------ validation: the set of reasons why jv does not validate against n
\* at: the path of keys from the root of the value to the place where the reason arises
W(r, jv, n, at) == [reason |-> r, vkind |-> jv.k, skw |-> IF n.ref # "" THEN "$ref" ELSE n.type, at |-> at]
\* how many keys of the value (at any depth) the schema's properties name
RECURSIVE Overlap(_, _), OverlapFrom(_, _, _)
OverlapFrom(jv, n, i) ==
  IF i > Len(jv.fields) THEN 0
  ELSE (IF jv.fields[i].name \in PropNames(n) THEN 1 + Overlap(jv.fields[i].v, PropOf(n, jv.fields[i].name).node) ELSE 0)
       + OverlapFrom(jv, n, i + 1)
Overlap(jv, n) == IF jv.k # "object" THEN 0 ELSE OverlapFrom(jv, n, 1)
RECURSIVE Whys(_, _, _)
\* of several branches none of which validates, the reasons reported are those of the closest ones: most keys of the value
\* named by the branch's properties, then the reasons arising deepest (a branch that fails near the root is further away
\* than one that fails inside a nested value): lexicographic on the number of reasons per depth
Cost(ws, base) ==
  LET nd(dd) == Cardinality({w \in ws : (IF Len(w.at) - base >= 3 THEN 3 ELSE Len(w.at) - base) = dd}) IN
  nd(0) * 1000000 + nd(1) * 10000 + nd(2) * 100 + nd(3)
Closest(jv, bs, at) ==
  LET ov(i) == Overlap(jv, bs[i])
      m1 == {i \in DOMAIN bs : \A j \in DOMAIN bs : ov(i) >= ov(j)}
      cost(i) == Cost(Whys(jv, bs[i], at), Len(at)) IN
  {i \in m1 : \A j \in m1 : cost(i) <= cost(j)}
Whys(jv, n, at) ==
  IF jv.k = "null" /\ n.nullable /\ n.ref = "" THEN {}       \* `nullable: true` read leniently (OpenAPI 3.0 keyword)
  ELSE
    (IF n.ref # "" THEN {W("unresolvable-ref", jv, n, at)} ELSE {})
    \cup (IF n.type # "" /\ n.type \notin KnownTypes THEN {W("unknown-type-keyword", jv, n, at)}
          ELSE IF ~KindOK(jv.k, n.type) THEN {W("type-mismatch", jv, n, at)}
          ELSE IF n.enum # <<>> /\ ~(jv.k = "string" /\ jv.s \in Rng(n.enum)) THEN {W("not-in-enum", jv, n, at)} ELSE {})
    \cup (IF jv.k # "object" THEN {}
          ELSE {W("required-key-absent", jv, n, Append(at, k)) :
                    k \in ({q.name : q \in {r \in Rng(n.props) : r.required}} \cup Rng(n.reqextra)) \ KeysOf(jv)}
               \cup UNION {Whys(f.v, PropOf(n, f.name).node, Append(at, f.name)) :
                             f \in {g \in Rng(jv.fields) : g.name \in PropNames(n)}})
    \cup (IF jv.k = "array" /\ n.items # <<>> THEN UNION {Whys(jv.items[i], n.items[1], at) : i \in DOMAIN jv.items} ELSE {})
    \cup (IF n.oneOf = <<>> THEN {}
          ELSE LET ok == {i \in DOMAIN n.oneOf : Whys(jv, n.oneOf[i], at) = {}} IN
               IF Cardinality(ok) = 1 THEN {}
               ELSE IF Cardinality(ok) > 1 THEN {W("oneOf-several-branches-match", jv, n, at)}
               ELSE UNION {Whys(jv, n.oneOf[i], at) : i \in Closest(jv, n.oneOf, at)})
    \cup (IF n.anyOf = <<>> \/ \E i \in DOMAIN n.anyOf : Whys(jv, n.anyOf[i], at) = {} THEN {}
          ELSE UNION {Whys(jv, n.anyOf[i], at) : i \in Closest(jv, n.anyOf, at)})
    \cup UNION {Whys(jv, n.allOf[i], at) : i \in DOMAIN n.allOf}
Valid(jv, n) == Whys(jv, n, <<>>) = {}

\* ------------------------------------------------------------------ property names and requiredness at every object position
ProbeOk(smp, path) == IF \E p \in Rng(smp.probes) : p.path = path
                        THEN (CHOOSE p \in Rng(smp.probes) : p.path = path).ok
                        ELSE TRUE        \* deeper than the harness probes: nothing is claimed
\* the node that describes a set of values: the node itself, or for oneOf/anyOf the first branch that validates one
\* of them and names most of their keys (none: no name/required facts at this position; the values are reported as
\* value-invalid anyway)
Branches(n) == IF n.oneOf # <<>> THEN n.oneOf ELSE n.anyOf
ResolveNode(n, vals) ==
  IF Branches(n) = <<>> THEN <<n>>
  ELSE LET bs == Branches(n)
           cand == {i \in DOMAIN bs : \E v \in vals : Valid(v, bs[i])}
           ov(i) == LET os == {Overlap(v, bs[i]) : v \in vals} IN CHOOSE o \in os : \A o2 \in os : o >= o2
           best == {i \in cand : \A j \in cand : ov(i) >= ov(j)} IN
       IF cand = {} THEN <<>> ELSE <<bs[CHOOSE i \in best : \A j \in best : i <= j]>>

RECURSIVE ObjFacts(_, _, _, _)
ObjFacts(n0, S, path, tolerated) ==
  LET objs == {s \in S : Has(s.json, path) /\ At(s.json, path).k = "object"}
      rn == ResolveNode(n0, {At(s.json, path) : s \in objs}) IN
  IF objs = {} \/ rn = <<>> \/ Len(path) >= 3 THEN {}
  ELSE IF rn[1].ref # "" \/ rn[1].type \notin {"", "object"} THEN {}     \* not an object schema: reported as value-invalid
  ELSE
    LET n == rn[1]
        keys == UNION {KeysOf(At(s.json, path)) : s \in objs}
        props == PropNames(n)
        always(k) == \A s \in objs : k \in KeysOf(At(s.json, path))
        rt == {s \in objs : s.roundtrip}       \* probes mean something only if serde can read the unmodified value
        needed(k) == \E s \in rt : k \in KeysOf(At(s.json, path)) /\ ~ProbeOk(s, Append(path, k))
        sreq(k) == PropOf(n, k).required
        F(fact, k, outcome) == [fact |-> fact, path |-> path, key |-> k, outcome |-> outcome]
    IN {F("property-missing", k, "written-key-is-not-a-property") : k \in keys \ props}
       \cup {F("property-extra", k, "property-is-never-written") : k \in (props \ keys) \ tolerated}
       \cup {F("required-mismatch", k,
               IF sreq(k) THEN (IF ~always(k) THEN "required-but-serde-omits-it" ELSE "required-but-serde-defaults-it")
               ELSE "optional-but-serde-always-writes-and-needs-it") :
             k \in {x \in keys \cap props : rt # {} /\ sreq(x) # (always(x) /\ needed(x))}}
       \cup UNION {ObjFacts(PropOf(n, k).node, {s \in objs : k \in KeysOf(At(s.json, path))}, Append(path, k), {}) :
                   k \in keys \cap props}

\* ------------------------------------------------------------------ the relation
\* all violated facts of one observation: records [fact, at (key path concerned), outcome, vi (variant), vkind, skw]
Fails(d, schema, samples) ==
  LET inv == UNION {{[fact |-> "value-invalid", at |-> w.at, outcome |-> w.reason, vi |-> s.v,
                      vkind |-> w.vkind, skw |-> w.skw] : w \in Whys(s.json, schema, <<>>)} : s \in samples}
      grp(vi) == {s \in samples : s.v = vi}
      facts == UNION {{[fact |-> f.fact, at |-> Append(f.path, f.key), outcome |-> f.outcome, vi |-> vi,
                        vkind |-> "-", skw |-> "-"] : f \in ObjFacts(schema, grp(vi), <<>>, ReadOnlyKeys(d))}
                      : vi \in {s.v : s \in samples}}
  IN inv \cup facts
SchemaMatchesSerde(d, schema, samples) == Fails(d, schema, samples) = {}

\* ------------------------------------------------------------------ signatures (class of the definition part concerned + class of the outcome)
KeyRole(d, at) ==
  IF at = <<>> THEN "value"
  ELSE IF d.kind = "struct" THEN (IF Len(at) = 1 THEN "field" ELSE "nested-field")
  ELSE CASE d.tagging = "external" -> IF Len(at) = 1 THEN "variant-key" ELSE "payload-field"
         [] d.tagging = "internal" -> IF at = <<TagKey>> THEN "tag" ELSE "payload-field"
         [] d.tagging = "adjacent" -> IF at = <<TagKey>> THEN "tag" ELSE IF at = <<ContentKey>> THEN "content" ELSE "payload-field"
         [] d.tagging = "untagged" -> "payload-field"
Sig0 == [kind |-> "-", fact |-> "-", outcome |-> "-", vkind |-> "-", skw |-> "-", role |-> "-", ra |-> "-",
         cdefault |-> "-", ty |-> "-", opt |-> "-", rclass |-> "-", skip |-> "-", ssif |-> "-", fdefault |-> "-",
         flatten |-> "-", style |-> "-", tagging |-> "-", shape |-> "-", payload |-> "-"]
SigOf(d, f) ==
  LET base == [Sig0 EXCEPT !.kind = d.kind, !.fact = f.fact, !.outcome = f.outcome, !.vkind = f.vkind, !.skw = f.skw,
                           !.ra = d.ra, !.role = KeyRole(d, f.at)] IN
  IF d.kind = "struct" THEN
    LET i == IF f.at = <<>> THEN 0 ELSE OwnerField(d, f.at[1]) IN
    IF i = 0 THEN [base EXCEPT !.cdefault = B(d.cdefault)]
    ELSE LET fl == d.fields[i] IN
         [base EXCEPT !.cdefault = B(d.cdefault), !.ty = fl.ty, !.opt = B(fl.opt), !.rclass = fl.rclass, !.skip = fl.skip,
                      !.ssif = B(fl.ssif), !.fdefault = B(fl.fdefault), !.flatten = B(fl.flatten), !.style = fl.style]
  ELSE LET v == d.variants[f.vi] IN
       [base EXCEPT !.tagging = d.tagging, !.shape = v.shape, !.payload = v.payload, !.style = v.style, !.rclass = v.rclass]

\* ------------------------------------------------------------------ what a correct derive may emit (one admissible schema per definition)
NullOr(n) == [Node0 EXCEPT !.anyOf = <<n, NType("null")>>]
InnerNode == NObj(<<P(InZ, TRUE, NType("string")), P(InB, FALSE, NullOr(NType("integer"))), P(InA, TRUE, NType("string"))>>)
SVProps(v) == <<P(SVKey(v, MyField), TRUE, NType("string")), P(SVKey(v, NKey), FALSE, NullOr(NType("integer")))>>
TyNode(f) == LET t == CASE f.ty = "str" -> NType("string") [] f.ty = "int" -> NType("integer") [] f.ty = "inner" -> InnerNode
                        [] f.ty = "bool" -> NType("boolean") IN
             IF f.opt /\ ~f.ssif THEN NullOr(t) ELSE t
RECURSIVE IdealProps(_, _)
IdealProps(d, i) ==
  IF i > Len(d.fields) THEN <<>>
  ELSE LET f == d.fields[i] IN
       (IF ~EverWritten(f) THEN <<>>
        ELSE IF f.flatten THEN InnerNode.props
        ELSE <<P(FieldKey(d, i), AlwaysWritten(f) /\ ~Defaultable(d, f), TyNode(f))>>) \o IdealProps(d, i + 1)
TagNode(tag) == [Node0 EXCEPT !.type = "string", !.enum = <<tag>>]
PayloadProps(v) == IF v.shape = "struct" THEN SVProps(v) ELSE IF v.shape = "empty" THEN <<>> ELSE InnerNode.props
PayloadNode(v) == IF v.shape = "newtype" /\ v.payload = "str" THEN NType("string") ELSE NObj(PayloadProps(v))
IdealBranch(d, vi) ==
  LET v == d.variants[vi]
      tag == VariantTag(d, vi) IN
  CASE d.tagging = "external" -> IF v.shape = "unit" THEN TagNode(tag) ELSE NObj(<<P(tag, TRUE, PayloadNode(v))>>)
    [] d.tagging = "internal" -> IF v.shape = "unit" THEN NObj(<<P(TagKey, TRUE, TagNode(tag))>>)
                                  ELSE NObj(<<P(TagKey, TRUE, TagNode(tag))>> \o PayloadProps(v))
    [] d.tagging = "adjacent" -> IF v.shape = "unit" THEN NObj(<<P(TagKey, TRUE, TagNode(tag))>>)
                                  ELSE NObj(<<P(TagKey, TRUE, TagNode(tag)), P(ContentKey, TRUE, PayloadNode(v))>>)
    [] d.tagging = "untagged" -> IF v.shape = "unit" THEN NType("null") ELSE PayloadNode(v)
\* (two variants that serde writes alike -- the unit variants of an untagged enum are all `null` -- make one alternative, not two: a value must
\*  match exactly one branch of a oneOf)
IdealBranches(d) == LET idx == SelectSeq([i \in 1..Len(d.variants) |-> i], LAMBDA i : ~\E j \in 1..(i - 1) : IdealBranch(d, j) = IdealBranch(d, i))
                    IN [k \in DOMAIN idx |-> IdealBranch(d, idx[k])]
IdealSchema(d) == IF d.kind = "struct" THEN NObj(IdealProps(d, 1))
                  ELSE [Node0 EXCEPT !.oneOf = IdealBranches(d)]
=============================================================================
