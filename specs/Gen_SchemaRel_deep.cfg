SPECIFICATION GSpec
CONSTANT TIER = "deep"
CHECK_DEADLOCK FALSE
