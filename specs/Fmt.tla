-------------------------------- MODULE Fmt --------------------------------
(***************************************************************************)
(* C20 - date and number formatters are exact for every input.             *)
(*                                                                         *)
(* Vocabulary                                                              *)
(*   day   day number since 1970-01-01 (0 .. 2932896 = 9999-12-31)         *)
(*   sod   second of day (0 .. 86399);  timestamp = 86400*day + sod        *)
(*   civil date  [y, m, d, wd]   wd: 0 = Sunday .. 6 = Saturday            *)
(*   limbs <<l0,l1,l2,l3>>  a 64-bit unsigned value in base 2^16, least    *)
(*         significant first (TLC integers are 32 bit: no value >= 2^31    *)
(*         ever appears; carries stay below 2^21)                          *)
(*   text  sequences of byte codes (TLC strings cannot be indexed)         *)
(*                                                                         *)
(* (a) property-level operators: ImfFields / ImfBytes (the IMF-fixdate of  *)
(*     an instant), DecBytes (canonical decimal), HexFixedBytes / HexCanon *)
(*     (lower-case hexadecimal).                                           *)
(* (b) two independent formulations of each, checked against each other    *)
(*     by TLC (MC_Fmt*.cfg):                                               *)
(*       calendar  machine NextDay from Thursday 1970-01-01 (month lengths,*)
(*                 leap rule, weekday successor)  vs  closed forms         *)
(*                 CivilFromDays / DaysFromCivil (era arithmetic)          *)
(*       clock     machine Tick                   vs  HMS (division)       *)
(*       numbers   decimal / hexadecimal odometers (digit successor with   *)
(*                 carry) vs LimbsToDec (long division) / DecToLimbs       *)
(*                 (Horner evaluation) / nibble extraction                 *)
(*     The three machines share one origin state and run along their own   *)
(*     axis (2932897 + 86399 + MaxN states), so TLC visits EVERY day,      *)
(*     every second of a day and every n <= MaxN.                          *)
(***************************************************************************)
EXTENDS Integers, Sequences, FiniteSets, TLC

CONSTANTS LastDay,     \* last day number of the calendar machine (2932896 = 9999-12-31)
          StepUntil,   \* the machine steps day by day while cDay < StepUntil ...
          TailFrom,    \* ... and again from TailFrom on; in between it only takes 400-year jumps
                       \*     (StepUntil = TailFrom = LastDay: every single day, no jump needed)
          MaxN,        \* the number machine counts 0 .. MaxN  (MaxN < 2^31)
          NumLane,     \* lane length of the number machine (see Skip)
          LeapRule,    \* "gregorian"; "julian" (every fourth year) only in MC_Fmt_julian.cfg, where TLC must find the
                       \*   disagreement with the closed form on 2100-02-29 (non-vacuity of CalAgree)
          StartDay     \* 0: the machine starts on Thursday 1970-01-01 (every configuration but the non-vacuity one, which
                       \*   starts on 2100-01-01 to keep the counterexample short)

-----------------------------------------------------------------------------
(* Calendar: definitional pieces                                            *)

Leap(yy) == IF LeapRule = "julian" THEN yy % 4 = 0 ELSE (yy % 4 = 0 /\ yy % 100 # 0) \/ yy % 400 = 0
DaysIn(yy, mm) == CASE mm \in {1, 3, 5, 7, 8, 10, 12} -> 31
                    [] mm \in {4, 6, 9, 11}           -> 30
                    [] OTHER                          -> IF Leap(yy) THEN 29 ELSE 28

\* the machine's step as a function on civil dates
StepDate(c) == IF c.d < DaysIn(c.y, c.m) THEN [y |-> c.y, m |-> c.m, d |-> c.d + 1, wd |-> (c.wd + 1) % 7]
               ELSE IF c.m < 12          THEN [y |-> c.y, m |-> c.m + 1, d |-> 1, wd |-> (c.wd + 1) % 7]
               ELSE                           [y |-> c.y + 1, m |-> 1, d |-> 1, wd |-> (c.wd + 1) % 7]
Epoch == [y |-> 1970, m |-> 1, d |-> 1, wd |-> 4]            \* Thursday

\* closed form, day number -> civil date (era arithmetic; every intermediate value < 2^23)
CivilFromDays(z0) ==
  LET z   == z0 + 719468
      era == z \div 146097
      doe == z - era * 146097
      yoe == (doe - doe \div 1460 + doe \div 36524 - doe \div 146096) \div 365
      yy  == yoe + era * 400
      doy == doe - (365 * yoe + yoe \div 4 - yoe \div 100)
      mp  == (5 * doy + 2) \div 153
      dd  == doy - (153 * mp + 2) \div 5 + 1
      mm  == IF mp < 10 THEN mp + 3 ELSE mp - 9
  IN [y |-> IF mm <= 2 THEN yy + 1 ELSE yy, m |-> mm, d |-> dd, wd |-> (z0 + 4) % 7]

\* closed form, civil date -> day number
DaysFromCivil(yy, mm, dd) ==
  LET y1  == IF mm <= 2 THEN yy - 1 ELSE yy
      era == y1 \div 400
      yoe == y1 - era * 400
      mp  == IF mm > 2 THEN mm - 3 ELSE mm + 9
      doy == (153 * mp + 2) \div 5 + dd - 1
      doe == yoe * 365 + yoe \div 4 - yoe \div 100 + doy
  IN era * 146097 + doe - 719468

\* clock
HMS(s) == [h |-> s \div 3600, mi |-> (s \div 60) % 60, s |-> s % 60]
StepClock(t) == IF t.s < 59 THEN [h |-> t.h, mi |-> t.mi, s |-> t.s + 1]
                ELSE IF t.mi < 59 THEN [h |-> t.h, mi |-> t.mi + 1, s |-> 0]
                ELSE IF t.h < 23 THEN [h |-> t.h + 1, mi |-> 0, s |-> 0]
                ELSE [h |-> 0, mi |-> 0, s |-> 0]

-----------------------------------------------------------------------------
(* IMF-fixdate (RFC 9110 5.6.7):  Www, DD Mon YYYY HH:MM:SS GMT  (29 bytes) *)

WeekdayName == <<"Sun", "Mon", "Tue", "Wed", "Thu", "Fri", "Sat">>
MonthName   == <<"Jan", "Feb", "Mar", "Apr", "May", "Jun", "Jul", "Aug", "Sep", "Oct", "Nov", "Dec">>
WeekdayBytes == << <<83,117,110>>, <<77,111,110>>, <<84,117,101>>, <<87,101,100>>, <<84,104,117>>, <<70,114,105>>, <<83,97,116>> >>
MonthBytes   == << <<74,97,110>>, <<70,101,98>>, <<77,97,114>>, <<65,112,114>>, <<77,97,121>>, <<74,117,110>>,
                   <<74,117,108>>, <<65,117,103>>, <<83,101,112>>, <<79,99,116>>, <<78,111,118>>, <<68,101,99>> >>
ImfLen == 29
\* the bytes of the string that are not part of a field, in order:  ", " " " " " " " ":" ":" " GMT"
ImfFrame == ",    :: GMT"

ImfFields(dayno, s) ==
  LET c == CivilFromDays(dayno)
      t == HMS(s)
  IN [wd |-> WeekdayName[c.wd + 1], dd |-> c.d, mon |-> MonthName[c.m], yy |-> c.y, hh |-> t.h, mi |-> t.mi, ss |-> t.s]

D2(v) == <<48 + v \div 10, 48 + (v % 10)>>
D4(v) == <<48 + v \div 1000, 48 + ((v \div 100) % 10), 48 + ((v \div 10) % 10), 48 + (v % 10)>>
ImfBytes(dayno, s) ==
  LET c == CivilFromDays(dayno)
      t == HMS(s)
  IN WeekdayBytes[c.wd + 1] \o <<44, 32>> \o D2(c.d) \o <<32>> \o MonthBytes[c.m] \o <<32>> \o D4(c.y) \o <<32>>
     \o D2(t.h) \o <<58>> \o D2(t.mi) \o <<58>> \o D2(t.s) \o <<32, 71, 77, 84>>

\* classes used in verdict signatures
DateClass(c) == IF c.m = 2 /\ c.d = 29 THEN "feb29"
                ELSE IF c.m = 2 /\ c.d = 28 THEN "feb28"
                ELSE IF c.m = 3 /\ c.d = 1 THEN "mar01"
                ELSE IF c.m = 12 /\ c.d = 31 THEN "dec31"
                ELSE IF c.m = 1 /\ c.d = 1 THEN "jan01"
                ELSE IF c.d = DaysIn(c.y, c.m) THEN "month-end"
                ELSE IF c.d = 1 THEN "month-start" ELSE "mid-month"
YearClass(yy) == IF yy % 400 = 0 THEN "leap-400" ELSE IF yy % 100 = 0 THEN "century-common"
                 ELSE IF yy % 4 = 0 THEN "leap" ELSE "common"
ClockClass(s) == IF s = 0 THEN "midnight" ELSE IF s = 86399 THEN "last-second"
                 ELSE IF s % 3600 = 0 THEN "hour-start" ELSE IF s % 3600 = 3599 THEN "hour-end"
                 ELSE IF s % 60 = 0 THEN "minute-start" ELSE IF s % 60 = 59 THEN "minute-end" ELSE "mid-minute"
\* irregular dates: the places where a table-driven implementation can be wrong on particular days only
IrregularDate(c) == (c.m = 2 /\ c.d >= 28) \/ (c.m = 3 /\ c.d = 1) \/ (c.m = 12 /\ c.d = 31) \/ (c.m = 1 /\ c.d = 1)
IrregularSod(s) == s % 3600 \in {0, 3599}

-----------------------------------------------------------------------------
(* Numbers in base 2^16                                                     *)

B16 == 65536
Zero4 == <<0, 0, 0, 0>>
IsLimbs(L) == Len(L) = 4 /\ \A i \in 1..4 : L[i] \in 0..(B16 - 1)
LimbsOfInt(v) == <<v % B16, v \div B16, 0, 0>>                 \* 0 <= v < 2^31

\* L * k + c for small k, c (k <= 16, c < 16): carries < 2^21
MulAdd(L, k, c) ==
  LET t0 == L[1] * k + c
      t1 == L[2] * k + t0 \div B16
      t2 == L[3] * k + t1 \div B16
      t3 == L[4] * k + t2 \div B16
  IN [limbs |-> <<t0 % B16, t1 % B16, t2 % B16, t3 % B16>>, over |-> t3 \div B16]

\* L \div k and L % k for small k (k <= 16): long division from the most significant limb
DivSmall(L, k) ==
  LET t3 == L[4]
      t2 == (t3 % k) * B16 + L[3]
      t1 == (t2 % k) * B16 + L[2]
      t0 == (t1 % k) * B16 + L[1]
  IN [q |-> <<t0 \div k, t1 \div k, t2 \div k, t3 \div k>>, r |-> t0 % k]

\* L - 1 (L # 0) and L + 1
RECURSIVE Borrow(_, _)
Borrow(L, i) == IF L[i] > 0 THEN [L EXCEPT ![i] = @ - 1] ELSE Borrow([L EXCEPT ![i] = B16 - 1], i + 1)
SubOne(L) == Borrow(L, 1)
AddOne(L) == MulAdd(L, 1, 1)          \* record [limbs, over]

\* digit string (values 0..base-1, most significant first) -> limbs, Horner evaluation
RECURSIVE EvalDigits(_, _, _, _)
EvalDigits(ds, i, base, acc) ==
  IF i > Len(ds) THEN [ok |-> TRUE, limbs |-> acc]
  ELSE LET s == MulAdd(acc, base, ds[i])
       IN IF s.over # 0 THEN [ok |-> FALSE, limbs |-> Zero4] ELSE EvalDigits(ds, i + 1, base, s.limbs)
DecToLimbs(ds) == EvalDigits(ds, 1, 10, Zero4)
HexToLimbs(ds) == EvalDigits(ds, 1, 16, Zero4)

\* limbs -> canonical decimal digits (repeated long division by ten)
RECURSIVE DecDigitsOf(_)
DecDigitsOf(L) == IF L = Zero4 THEN <<>> ELSE LET s == DivSmall(L, 10) IN Append(DecDigitsOf(s.q), s.r)
LimbsToDec(L) == IF L = Zero4 THEN <<0>> ELSE DecDigitsOf(L)

\* limbs -> the 16 hexadecimal digits (nibble extraction), and the canonical form without leading zeros
P16 == <<1, 16, 256, 4096>>
LimbsToHexFixed(L) == [i \in 1..16 |-> (L[4 - (i - 1) \div 4] \div P16[4 - ((i - 1) % 4)]) % 16]
RECURSIVE StripFrom(_, _, _)
StripFrom(ds, i, zero) == IF i < Len(ds) /\ ds[i] = zero THEN StripFrom(ds, i + 1, zero) ELSE SubSeq(ds, i, Len(ds))
Strip(ds, zero) == IF ds = <<>> THEN ds ELSE StripFrom(ds, 1, zero)      \* keeps the last digit: "000" -> "0"
LimbsToHex(L) == Strip(LimbsToHexFixed(L), 0)

Canonical(ds) == Len(ds) >= 1 /\ (Len(ds) = 1 \/ ds[1] # 0)

\* integer formulation for values below 2^31 (plain division on TLC integers)
RECURSIVE IntDigits(_, _)
IntDigits(v, base) == IF v < base THEN <<v>> ELSE Append(IntDigits(v \div base, base), v % base)

\* byte codes
DecVal(b) == IF b \in 48..57 THEN b - 48 ELSE -1
HexVal(b) == IF b \in 48..57 THEN b - 48 ELSE IF b \in 97..102 THEN b - 87 ELSE -1       \* lower case only
DecByte(v) == 48 + v
HexByte(v) == IF v < 10 THEN 48 + v ELSE 87 + v

\* (a) what the property allows
DecBytes(L)      == LET ds == LimbsToDec(L) IN [i \in 1..Len(ds) |-> DecByte(ds[i])]          \* itoa
HexFixedBytes(L) == LET ds == LimbsToHexFixed(L) IN [i \in 1..16 |-> HexByte(ds[i])]          \* hexized: 2*size_of::<usize>() digits
HexCanonBytes(L) == LET ds == LimbsToHex(L) IN [i \in 1..Len(ds) |-> HexByte(ds[i])]          \* what a caller gets after stripping '0's

\* number classes for signatures
AllEq(ds, from, v) == \A i \in from..Len(ds) : ds[i] = v
DigitClass(ds, top) ==          \* ds canonical digits, top = base - 1
  IF ds = <<0>> THEN "zero"
  ELSE IF AllEq(ds, 1, top) THEN "all-max-digits"
  ELSE IF ds[1] = 1 /\ AllEq(ds, 2, 0) THEN "power-of-base"
  ELSE IF ds[1] = 1 /\ Len(ds) > 1 /\ AllEq(SubSeq(ds, 1, Len(ds) - 1), 2, 0) /\ ds[Len(ds)] = 1 THEN "power-of-base-plus-1"
  ELSE "generic"
IrregularNum(L, base) == LET ds == IF base = 10 THEN LimbsToDec(L) ELSE LimbsToHex(L)
                         IN DigitClass(ds, base - 1) # "generic" \/ L[3] # 0 \/ L[4] # 0 \/ L[2] >= 32768

-----------------------------------------------------------------------------
(* (b) the machines                                                         *)

VARIABLES cDay, cY, cM, cD, cWd,        \* calendar machine
          kSod, kH, kMi, kS,            \* clock machine
          nN, nDec, nHex                \* number machine: n and its decimal / hexadecimal odometers
cal == <<cDay, cY, cM, cD, cWd>>
clk == <<kSod, kH, kMi, kS>>
num == <<nN, nDec, nHex>>
vars == <<cal, clk, num>>

Start == IF StartDay = 0 THEN Epoch ELSE CivilFromDays(StartDay)
Init == /\ cDay = StartDay /\ cY = Start.y /\ cM = Start.m /\ cD = Start.d /\ cWd = Start.wd
        /\ kSod = 0 /\ kH = 0 /\ kMi = 0 /\ kS = 0
        /\ nN = 0 /\ nDec = <<0>> /\ nHex = <<0>>

CalNow == [y |-> cY, m |-> cM, d |-> cD, wd |-> cWd]
SetCal(c) == cY' = c.y /\ cM' = c.m /\ cD' = c.d /\ cWd' = c.wd

NextDay == /\ cDay < LastDay /\ (cDay < StepUntil \/ cDay >= TailFrom)
           /\ cDay' = cDay + 1 /\ SetCal(StepDate(CalNow))
\* The Gregorian calendar has period 400 years = 146097 days = 20871 weeks exactly.  The quick configuration uses
\* the jump to reach the last years without walking through all of them.  The deep configuration walks through
\* EVERY day; there the jumps only open 21 lanes that TLC's workers walk in parallel, and the walker of one lane
\* arrives in the start state of the next (CalAgree pins every variable by cDay, so a disagreement between the
\* walker and the jumper would violate it).
Jump400 == /\ cM = 1 /\ cD = 1 /\ (cY - 1970) % 400 = 0
           /\ cDay + 146097 <= LastDay
           /\ cDay' = cDay + 146097 /\ SetCal([CalNow EXCEPT !.y = @ + 400])

Tick == /\ kSod < 86399 /\ kSod' = kSod + 1
        /\ LET t == StepClock([h |-> kH, mi |-> kMi, s |-> kS]) IN kH' = t.h /\ kMi' = t.mi /\ kS' = t.s
\* the 86400th tick is midnight of the next day: same state as NextDay from the origin (confluence is checked by TLC:
\* the state count would differ otherwise, and ClockAgree/CalAgree hold in the joined state)
Rollover == /\ kSod = 86399 /\ kSod' = 0
            /\ LET t == StepClock([h |-> kH, mi |-> kMi, s |-> kS]) IN kH' = t.h /\ kMi' = t.mi /\ kS' = t.s
            /\ cDay' = cDay + 1 /\ SetCal(StepDate(CalNow))

\* odometer: successor of a digit string (most significant first)
RECURSIVE Succ(_, _)
Succ(ds, base) == IF ds = <<>> THEN <<1>>
                  ELSE LET k == Len(ds) IN
                       IF ds[k] < base - 1 THEN [ds EXCEPT ![k] = @ + 1]
                       ELSE Append(Succ(SubSeq(ds, 1, k - 1), base), 0)
Count == /\ nN < MaxN /\ nN' = nN + 1 /\ nDec' = Succ(nDec, 10) /\ nHex' = Succ(nHex, 16)
\* lanes for TLC's workers: the start of the next lane is seeded from the integer formulation; the odometer of the
\* previous lane walks into the same state (NumAgree pins both odometers by nN), so every n is still reached by Count
Skip == /\ nN % NumLane = 0 /\ nN + NumLane <= MaxN /\ nN' = nN + NumLane
        /\ nDec' = IntDigits(nN', 10) /\ nHex' = IntDigits(nN', 16)

AtOrigin(v) == CASE v = "cal" -> kSod = 0 /\ nN = 0
                 [] v = "clk" -> cDay = StartDay /\ nN = 0
                 [] v = "num" -> cDay = StartDay /\ kSod = 0
Next == \/ (AtOrigin("cal") /\ (NextDay \/ Jump400) /\ UNCHANGED <<clk, num>>)
        \/ (AtOrigin("clk") /\ Tick /\ UNCHANGED <<cal, num>>)
        \/ (AtOrigin("clk") /\ Rollover /\ UNCHANGED num)
        \/ (AtOrigin("num") /\ (Count \/ Skip) /\ UNCHANGED <<cal, clk>>)
Spec == Init /\ [][Next]_vars

\* ------------------------------------------------------------------ invariants: the formulations agree
CalAgree == /\ CivilFromDays(cDay) = CalNow
            /\ DaysFromCivil(cY, cM, cD) = cDay
            /\ cD \in 1..DaysIn(cY, cM)
CalEnd   == cDay = LastDay => (cY = 9999 /\ cM = 12 /\ cD = 31 /\ LastDay = 2932896)
ClockAgree == HMS(kSod) = [h |-> kH, mi |-> kMi, s |-> kS] /\ kSod = 3600 * kH + 60 * kMi + kS /\ kH < 24
\* (evaluated on the number axis only: the other axes keep nN = 0, which the origin state covers)
NumAgree == (cDay = StartDay /\ kSod = 0) =>
  LET L == LimbsOfInt(nN) IN
  /\ IsLimbs(L)
  /\ LimbsToDec(L) = nDec /\ IntDigits(nN, 10) = nDec /\ Canonical(nDec)
  /\ DecToLimbs(nDec) = [ok |-> TRUE, limbs |-> L]
  /\ LimbsToHex(L) = nHex /\ IntDigits(nN, 16) = nHex /\ Canonical(nHex)
  /\ HexToLimbs(nHex) = [ok |-> TRUE, limbs |-> L]
  /\ HexToLimbs(LimbsToHexFixed(L)) = [ok |-> TRUE, limbs |-> L]
  /\ (nN > 0 => SubOne(L) = LimbsOfInt(nN - 1))
  /\ AddOne(L) = [limbs |-> LimbsOfInt(nN + 1), over |-> 0]

\* ------------------------------------------------------------------ constant checks beyond 2^31 (no machine can walk there)
Zeros(k) == [i \in 1..k |-> 0]
Pow10(k) == DecToLimbs(<<1>> \o Zeros(k)).limbs                       \* k <= 19
Pow16(k) == [i \in 1..4 |-> IF i = k \div 4 + 1 THEN P16[(k % 4) + 1] ELSE 0]      \* k <= 15
Max64 == <<65535, 65535, 65535, 65535>>
RoundTrip(L) == /\ IsLimbs(L)
                /\ DecToLimbs(LimbsToDec(L)) = [ok |-> TRUE, limbs |-> L] /\ Canonical(LimbsToDec(L))
                /\ HexToLimbs(LimbsToHex(L)) = [ok |-> TRUE, limbs |-> L] /\ Canonical(LimbsToHex(L))
                /\ HexToLimbs(LimbsToHexFixed(L)) = [ok |-> TRUE, limbs |-> L]
Neighbours(L) == {L} \cup (IF L = Zero4 THEN {} ELSE {SubOne(L)}) \cup (IF L = Max64 THEN {} ELSE {AddOne(L).limbs})
Boundaries == UNION ({Neighbours(Pow10(k)) : k \in 0..19} \cup {Neighbours(Pow16(k)) : k \in 0..15}
                     \cup {Neighbours(Max64), Neighbours(<<0, 32768, 0, 0>>), Neighbours(<<0, 0, 1, 0>>), Neighbours(<<0, 0, 0, 32768>>)})
BigChecks ==
  /\ \A L \in Boundaries : RoundTrip(L)
  /\ \A k \in 0..19 : LimbsToDec(Pow10(k)) = <<1>> \o Zeros(k)
  /\ \A k \in 1..19 : LimbsToDec(SubOne(Pow10(k))) = [i \in 1..k |-> 9]
  /\ \A k \in 0..15 : LimbsToHex(Pow16(k)) = <<1>> \o Zeros(k)
  /\ \A k \in 1..15 : LimbsToHex(SubOne(Pow16(k))) = [i \in 1..k |-> 15]
  /\ LimbsToDec(Max64) = <<1,8,4,4,6,7,4,4,0,7,3,7,0,9,5,5,1,6,1,5>>
  /\ LimbsToHex(Max64) = [i \in 1..16 |-> 15]
  /\ DecToLimbs(<<1,8,4,4,6,7,4,4,0,7,3,7,0,9,5,5,1,6,1,6>>).ok = FALSE           \* 2^64 does not fit
  /\ AddOne(Max64).over = 1
  \* 10^k computed by the decimal evaluator equals 10^k computed by multiplying limbs
  /\ \A k \in 0..18 : MulAdd(Pow10(k), 10, 0) = [limbs |-> Pow10(k + 1), over |-> 0]
  \* the IMF rendering has the fixed width and the fields sit where the frame says
  /\ Len(ImfBytes(0, 0)) = ImfLen
  /\ ImfBytes(0, 0) = <<84,104,117,44,32,48,49,32,74,97,110,32,49,57,55,48,32,48,48,58,48,48,58,48,48,32,71,77,84>>
  \* RFC 9110's own example: Sun, 06 Nov 1994 08:49:37 GMT = 784111777
  /\ ImfFields(9075, 31777) = [wd |-> "Sun", dd |-> 6, mon |-> "Nov", yy |-> 1994, hh |-> 8, mi |-> 49, ss |-> 37]
  /\ DaysFromCivil(9999, 12, 31) = 2932896
ASSUME BigChecks
=============================================================================
