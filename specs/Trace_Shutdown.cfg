SPECIFICATION TSpec
CONSTANTS
  RECHECK = TRUE
  MaxArrivals = 4
  MaxSpurious = 4
  MaxSignals = 2
INVARIANT TraceInv
CHECK_DEADLOCK FALSE
