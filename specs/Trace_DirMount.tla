--------------------------- MODULE Trace_DirMount ---------------------------
(***************************************************************************)
(* Trace validation for C19.  Input (IOEnv.TRACE): ndjson, one line per    *)
(* scenario executed on the real code: {"id", "scn", "obs"}.               *)
(* One VERDICT with k = 0 per line (the mount itself) and one VERDICT per  *)
(* request (k = index in scn.reqs), each decided by layer (a) of DirMount. *)
(* Total: every line and every request gets a verdict.                     *)
(***************************************************************************)
EXTENDS DirMount, Json, IOUtils

Rec == ndJsonDeserialize(IOEnv.TRACE)
N == Len(Rec)

VARIABLES l, k, tab     \* tab: Tab(scn) of the current line, computed at k = 0
tv == <<l, k, tab>>

TInit == l = 1 /\ k = 0 /\ tab = <<>>

TreeClass(scn) == IF Unsupported(scn) # {} THEN "unsupported-file"
                  ELSE IF Collisions(scn) # {} THEN "two-files-one-path"
                  ELSE IF \E i \in FilesIx(scn) : /\ IsIndex(scn.files[i]) /\ FileDir(scn.files[i]) # <<>>
                                                  /\ Omitted(LastOf(FileDir(scn.files[i])), scn.omit)
                    THEN "index-in-dir-whose-name-has-omitted-ext"
                  ELSE "plain"

\* verdict on the mount (k = 0)
MountVerdict(r) ==
  IF r.obs.kind # "dir" THEN [ok |-> FALSE, sig |-> [what |-> "mount", tree |-> TreeClass(r.scn), outcome |-> r.obs.kind]]
  ELSE IF ~r.obs.mounted THEN [ok |-> MayRefuse(r.scn),
                               sig |-> [what |-> "mount", tree |-> TreeClass(r.scn), outcome |-> "refused-" \o r.obs.refusal]]
  ELSE [ok |-> TRUE, sig |-> [what |-> "mount", tree |-> TreeClass(r.scn), outcome |-> "mounted"]]

\* the signature (path class, outcome class) is only computed for responses outside the property
ReqVerdict(r, j) ==
  LET rq == r.scn.reqs[j]
      o == r.obs.resps[j]
      ok == ObsOKT(tab, rq, o)
  IN [ok |-> ok,
      sig |-> IF ok THEN [what |-> "request", m |-> rq.m, path |-> "-", outcome |-> "allowed"]
              ELSE [what |-> "request", m |-> rq.m, path |-> PathClass(r.scn, PathOf(rq.path)), outcome |-> OutcomeClass(r.scn, rq, o)]]

NReqs(r) == IF r.obs.kind = "dir" /\ r.obs.mounted THEN Len(r.scn.reqs) ELSE 0

TNext ==
  /\ l <= N
  /\ LET r == Rec[l] IN
       /\ IF k = 0
            THEN LET v == MountVerdict(r) IN
                 PrintT(ToJson([t |-> "VERDICT", id |-> r.id, k |-> 0, ok |-> v.ok, sig |-> v.sig, nt |-> NonTrivial(r.scn)]))
            ELSE LET v == ReqVerdict(r, k) IN
                 PrintT(ToJson([t |-> "VERDICT", id |-> r.id, k |-> k, ok |-> v.ok, sig |-> v.sig, nt |-> FALSE]))
       /\ IF k < NReqs(r) THEN (l' = l /\ k' = k + 1) ELSE (l' = l + 1 /\ k' = 0)
       /\ tab' = IF k = 0 /\ NReqs(r) > 0 THEN Tab(r.scn) ELSE tab

TSpec == TInit /\ [][TNext]_tv
=============================================================================
