SPECIFICATION GSpec
CONSTANTS
  FAMILY = "headers"
  MaxParts = 2
  MaxLen = 1
  BNDS = {"b", "b-"}
  FULLTARGETS = FALSE
INVARIANT RoundTripInv
INVARIANT RefineInv
CHECK_DEADLOCK FALSE
