------------------------------ MODULE DirMount ------------------------------
(***************************************************************************)
(* C19 — a mounted directory serves exactly its files, byte-identical,     *)
(* and nothing else.                                                       *)
(*                                                                         *)
(* Text is a sequence of 1-character strings (TLC cannot index strings).   *)
(*                                                                         *)
(* A scenario is a record                                                  *)
(*   [mount : Seq(Seg), omit : Seq(Ext), files : Seq([path : Seq(Seg),     *)
(*    cls : STRING]), late : Seq([path, op]), reqs : Seq([m, kind, path])] *)
(* path of a file = directory segments + file name, relative to the        *)
(* mounted directory; path of a request = the request-target, characters.  *)
(*                                                                         *)
(* Layer (a), written from the property text only:                         *)
(*   Must(scn, p)  files that MUST answer at path p                        *)
(*   May(scn, p)   files that MAY answer at p (cases the text leaves open) *)
(*   AllowedAt / ObsOK  what a response to a request may look like         *)
(*   MayRefuse(scn) trees for which refusing to mount is not a violation   *)
(* Layer (b), shaped like ohkami/src/ohkami/routing.rs `Dir` + the router: *)
(*   ImplRegs, ImplMount, ImplSearch, ImplResp, and the named deviations.  *)
(***************************************************************************)
EXTENDS Naturals, Sequences, FiniteSets, TLC

CONSTANTS
  INDEX_OWN_PATH,   \* (a) TRUE: index.html must also answer at its own (extension-omitted) path — the literal reading
  FIX_INDEX_OWN,    \* (b) the implementation registers <dir>/index when html is omitted
  FIX_DIRNAME,      \* (b) the implementation strips omitted extensions from file names only (not from directory names)
  FIX_LENGTH,       \* (b) the static-file handler declares the file's length
  SORT              \* (b) "reverse" (as in router/final.rs) | "forward" (non-vacuity: breaks near-miss names)

\* ------------------------------------------------------------------ text helpers
IsPrefixOf(p, s) == Len(p) <= Len(s) /\ SubSeq(s, 1, Len(p)) = p
IsSuffixOf(p, s) == Len(p) <= Len(s) /\ SubSeq(s, Len(s) - Len(p) + 1, Len(s)) = p
DropFirst(s, n) == SubSeq(s, n + 1, Len(s))
DropLast(s, n) == SubSeq(s, 1, Len(s) - n)
LastOf(s) == s[Len(s)]
FrontOf(s) == SubSeq(s, 1, Len(s) - 1)
RangeOf(s) == {s[i] : i \in DOMAIN s}

RECURSIVE Slashed(_)
Slashed(segs) == IF segs = <<>> THEN <<>> ELSE <<"/">> \o segs[1] \o Slashed(Tail(segs))
\* the route (as text) of a sequence of segments; the empty sequence is "/"
RouteText(segs) == IF segs = <<>> THEN <<"/">> ELSE Slashed(segs)

Ascii == <<"","","","","","","","","","","","","","","","","","","","","","","","","","","","","","","",""," ","!","\"","#","$","%","&","'","(",")","*","+",",","-",".","/","0","1","2","3","4","5","6","7","8","9",":",";","<","=",">","?","@","A","B","C","D","E","F","G","H","I","J","K","L","M","N","O","P","Q","R","S","T","U","V","W","X","Y","Z","[","\\","]","^","_","`","a","b","c","d","e","f","g","h","i","j","k","l","m","n","o","p","q","r","s","t","u","v","w","x","y","z","{","|","}","~","">>
Digits == {"0","1","2","3","4","5","6","7","8","9"}
Lower == {"a","b","c","d","e","f","g","h","i","j","k","l","m","n","o","p","q","r","s","t","u","v","w","x","y","z"}
Upper == {"A","B","C","D","E","F","G","H","I","J","K","L","M","N","O","P","Q","R","S","T","U","V","W","X","Y","Z"}
Alnum == Digits \cup Lower \cup Upper
Unreserved == Alnum \cup {"-", ".", "_", "~"}

HexSeq == <<"0","1","2","3","4","5","6","7","8","9","a","b","c","d","e","f">>
HexSeqU == <<"0","1","2","3","4","5","6","7","8","9","A","B","C","D","E","F">>
HexVal(c) == IF \E i \in 1..16 : HexSeq[i] = c THEN (CHOOSE i \in 1..16 : HexSeq[i] = c) - 1
             ELSE IF \E i \in 1..16 : HexSeqU[i] = c THEN (CHOOSE i \in 1..16 : HexSeqU[i] = c) - 1 ELSE 99

\* percent-decoding of *unreserved* characters only (RFC 3986 §2.3: such an encoding is equivalent to the
\* character itself); %2f and friends stay as they are: an encoded separator is not a separator
PctCode(s) == 16 * HexVal(s[2]) + HexVal(s[3])
PctDecodable(s) == /\ Len(s) >= 3 /\ s[1] = "%" /\ HexVal(s[2]) < 16 /\ HexVal(s[3]) < 16
                   /\ PctCode(s) < 128 /\ Ascii[PctCode(s) + 1] \in Unreserved
RECURSIVE PctDecode(_)
PctDecode(s) == IF s = <<>> THEN <<>>
                ELSE IF PctDecodable(s) THEN <<Ascii[PctCode(s) + 1]>> \o PctDecode(DropFirst(s, 3))
                ELSE <<s[1]>> \o PctDecode(Tail(s))

\* the path component of a request-target: everything before the first "?"
QPos(t) == {i \in DOMAIN t : t[i] = "?"}
PathOf(t) == IF QPos(t) = {} THEN t ELSE SubSeq(t, 1, (CHOOSE i \in QPos(t) : \A j \in QPos(t) : i <= j) - 1)

\* ------------------------------------------------------------------ names, extensions, media types
Dots(name) == {i \in DOMAIN name : name[i] = "."}
HasExt(name) == Dots(name) # {}
LastDot(name) == CHOOSE i \in Dots(name) : \A j \in Dots(name) : j <= i
ExtOf(name) == SubSeq(name, LastDot(name) + 1, Len(name))
StemOf(name) == SubSeq(name, 1, LastDot(name) - 1)

\* <<extension, media type, is a text/* type>>
MimeTable == {
  <<<<"t","x","t">>, "text/plain", TRUE>>,
  <<<<"h","t","m","l">>, "text/html", TRUE>>,
  <<<<"c","s","s">>, "text/css", TRUE>>,
  <<<<"j","s">>, "text/javascript", TRUE>>,
  <<<<"x","m","l">>, "text/xml", TRUE>>,
  <<<<"c","s","v">>, "text/csv", TRUE>>,
  <<<<"t","s","v">>, "text/tab-separated-values", TRUE>>,
  <<<<"v","c","a","r","d">>, "text/vcard", TRUE>>,
  <<<<"j","p","e","g">>, "image/jpeg", FALSE>>,
  <<<<"g","i","f">>, "image/gif", FALSE>>,
  <<<<"p","n","g">>, "image/png", FALSE>>,
  <<<<"s","v","g">>, "image/svg+xml", FALSE>>,
  <<<<"w","o","f","f">>, "font/woff", FALSE>>,
  <<<<"w","o","f","f","2">>, "font/woff2", FALSE>>,
  <<<<"j","s","o","n">>, "application/json", FALSE>>,
  <<<<"p","d","f">>, "application/pdf", FALSE>>
}
KnownExt(ext) == \E r \in MimeTable : r[1] = ext
MimeRow(ext) == CHOOSE r \in MimeTable : r[1] = ext
MimeOfName(name) == IF HasExt(name) /\ KnownExt(ExtOf(name)) THEN MimeRow(ExtOf(name))[2] ELSE "none"
TextName(name) == HasExt(name) /\ KnownExt(ExtOf(name)) /\ MimeRow(ExtOf(name))[3]

INDEX == <<"i","n","d","e","x",".","h","t","m","l">>
HTML == <<"h","t","m","l">>

\* "names over the route alphabet" (ohkami/src/router/segments.rs): alphanumeric at both ends, . - _ inside
ValidSeg(seg) == /\ seg # <<>>
                 /\ seg[1] \in Alnum /\ LastOf(seg) \in Alnum
                 /\ \A i \in DOMAIN seg : seg[i] \in Alnum \cup {".", "-", "_"}

\* ------------------------------------------------------------------ layer (a): the served map
\* "configured extensions omitted": a name whose extension is configured loses ".ext"
OmitName(name, omit) == IF HasExt(name) /\ ExtOf(name) \in RangeOf(omit) THEN StemOf(name) ELSE name
Omitted(name, omit) == OmitName(name, omit) # name

FileName(f) == LastOf(f.path)
FileDir(f) == FrontOf(f.path)
IsIndex(f) == FileName(f) = INDEX

\* route of the file itself: mount route + relative path, configured extension omitted
OwnRoute(scn, f)  == RouteText(scn.mount \o FileDir(f) \o <<OmitName(FileName(f), scn.omit)>>)
\* the same with the extension spelled out
FullRoute(scn, f) == RouteText(scn.mount \o f.path)
\* directory path of the file (index.html also answers there)
DirRoute(scn, f)  == RouteText(scn.mount \o FileDir(f))

\* the domain of the property: names over the route alphabet, supported extension; a text/* file that is not
\* UTF-8 is refused by ohkami with a message ("doesn't support non UTF-8 text file") — outside the domain too
Supported(scn, f) == /\ \A i \in DOMAIN f.path : ValidSeg(f.path[i])
                     /\ HasExt(FileName(f)) /\ KnownExt(ExtOf(FileName(f)))
                     /\ ValidSeg(OmitName(FileName(f), scn.omit))
                     /\ ~(TextName(FileName(f)) /\ f.cls = "badtext")
FilesIx(scn) == DOMAIN scn.files
Unsupported(scn) == {i \in FilesIx(scn) : ~Supported(scn, scn.files[i])}

\* routes at which file i must answer
MustRoutes(scn, i) ==
  LET f == scn.files[i] IN
    (IF IsIndex(f) THEN {DirRoute(scn, f)} ELSE {})
    \cup (IF IsIndex(f) /\ Omitted(INDEX, scn.omit) /\ ~INDEX_OWN_PATH THEN {} ELSE {OwnRoute(scn, f)})
\* routes at which the text does not settle whether file i answers:
\*   the extension-ful spelling of a file whose extension is omitted;
\*   any of its routes with a single trailing slash;
\*   (index.html, html omitted, reading INDEX_OWN_PATH = FALSE) its own extension-less path
BaseMayRoutes(scn, i) ==
  LET f == scn.files[i]
      r0 == MustRoutes(scn, i) \cup {FullRoute(scn, f), OwnRoute(scn, f)}
  IN r0 \cup {r \o <<"/">> : r \in r0}
\* per-scenario table of the served map (computed once per scenario by the trace spec)
Tab(scn) == [uns  |-> Unsupported(scn),
             must |-> [i \in FilesIx(scn) |-> MustRoutes(scn, i)],
             may  |-> [i \in FilesIx(scn) |-> BaseMayRoutes(scn, i)],
             mime |-> [i \in FilesIx(scn) |-> MimeOfName(FileName(scn.files[i]))]]
MustT(tab, p) == {i \in DOMAIN tab.must : p \in tab.must[i]}
\*   ... and a path that becomes one of these by decoding percent-encoded unreserved characters
MayT(tab, p) == LET dp == IF "%" \in RangeOf(p) THEN PctDecode(p) ELSE p
                IN {i \in DOMAIN tab.may : p \in tab.may[i] \/ dp \in tab.may[i]}
Must(scn, p) == MustT(Tab(scn), p)
May(scn, p) == MayT(Tab(scn), p)

\* two files claim the same path: the text cannot be satisfied for both; refusing the mount or serving either is accepted
Collisions(scn) == {<<i, j>> \in FilesIx(scn) \X FilesIx(scn) : i < j /\ MustRoutes(scn, i) \cap MustRoutes(scn, j) # {}}
MayRefuse(scn) == Unsupported(scn) # {} \/ Collisions(scn) # {}

\* files changed on disk after the mount ("the regular files that were under it at start-up")
LateAdded(scn) == {scn.late[k].path : k \in {k \in DOMAIN scn.late : scn.late[k].op = "add"}}

\* abstract responses
Serve(i) == [t |-> "file", i |-> i]
NotFound == [t |-> "404"]
Unjudged == [t |-> "any"]

\* what a GET to path p may answer
AllowedGetT(tab, p) ==
  LET must == MustT(tab, p) IN
  IF tab.uns # {} /\ (must \cup MayT(tab, p)) \cap tab.uns # {} THEN {Unjudged}
  ELSE IF must # {} THEN {Serve(i) : i \in must}
  ELSE {NotFound} \cup {Serve(i) : i \in MayT(tab, p)}
AllowedGet(scn, p) == AllowedGetT(Tab(scn), p)

\* ------------------------------------------------------------------ judging an observed response
\* o = [k, status, mt, eq (files whose bytes equal the framed body), eqall (files whose bytes equal everything
\*      after the head), blen, tail (bytes after the framed body), eqlate, eqout]
IsResp(o) == o.k = "resp"
ServesFile(tab, o, i) == /\ IsResp(o) /\ o.status = 200
                         /\ o.mt = tab.mime[i]
                         /\ i \in RangeOf(o.eq) /\ o.tail = 0
HeadOfFile(tab, o, i) == /\ IsResp(o) /\ o.status = 200
                         /\ o.mt = tab.mime[i]
                         /\ o.blen = 0 /\ o.tail = 0
Is404(o) == IsResp(o) /\ o.status = 404

ObsOKT(tab, rq, o) ==
  LET p == PathOf(rq.path)
      al == AllowedGetT(tab, p)
      files == {a.i : a \in {a \in al : a.t = "file"}}
      served == NotFound \notin al
  IN \/ Unjudged \in al
     \/ /\ rq.m = "GET"
        /\ \/ (NotFound \in al /\ Is404(o))
           \/ \E i \in files : ServesFile(tab, o, i)
     \* the text is silent on methods: a served path may refuse HEAD/POST (404/405) or treat them like GET;
     \* a path that is not served stays 404 for every method
     \/ /\ rq.m = "HEAD"
        /\ \/ Is404(o)
           \/ (served /\ IsResp(o) /\ o.status = 405)
           \/ \E i \in files : HeadOfFile(tab, o, i)
     \/ /\ rq.m = "POST"
        /\ \/ Is404(o)
           \/ (served /\ IsResp(o) /\ o.status = 405)
           \/ \E i \in files : ServesFile(tab, o, i)
ObsOK(scn, rq, o) == ObsOKT(Tab(scn), rq, o)

\* classification for signatures -----------------------------------------------------------------
\* class of the request path relative to the tree (computed here, not taken from the generator's label)
PathClass(scn, p) ==
  LET must == Must(scn, p) IN
  IF \E i \in must : IsIndex(scn.files[i]) /\ p = OwnRoute(scn, scn.files[i]) /\ p # DirRoute(scn, scn.files[i]) /\ Omitted(INDEX, scn.omit)
    THEN "index-own-path-ext-omitted"
  ELSE IF \E i \in must : IsIndex(scn.files[i]) /\ p = DirRoute(scn, scn.files[i])
                          /\ FileDir(scn.files[i]) # <<>> /\ Omitted(LastOf(FileDir(scn.files[i])), scn.omit)
    THEN "dir-of-index-dirname-has-omitted-ext"
  ELSE IF \E i \in must : IsIndex(scn.files[i]) /\ p = DirRoute(scn, scn.files[i]) THEN "dir-of-index"
  ELSE IF \E i \in must : Omitted(FileName(scn.files[i]), scn.omit) THEN "file-ext-omitted"
  ELSE IF must # {} THEN "file"
  ELSE IF \E i \in FilesIx(scn) : /\ IsIndex(scn.files[i]) /\ FileDir(scn.files[i]) # <<>>
                                   /\ Omitted(LastOf(FileDir(scn.files[i])), scn.omit)
                                   /\ p = RouteText(scn.mount \o FrontOf(FileDir(scn.files[i])) \o <<OmitName(LastOf(FileDir(scn.files[i])), scn.omit)>>)
    THEN "dirname-with-ext-stripped"
  ELSE IF May(scn, p) # {} THEN "unsettled"
  ELSE IF p \in {RouteText(scn.mount \o pa) : pa \in LateAdded(scn)} THEN "added-after-mount"
  ELSE "not-served"

OutcomeClass(scn, rq, o) ==
  IF ~IsResp(o) THEN o.k
  ELSE IF o.status = 200 THEN
     LET p == PathOf(rq.path)
         cand == IF Must(scn, p) # {} THEN Must(scn, p) ELSE May(scn, p)
         \* candidates whose media type is the observed one: bytes and type must fit the *same* file
         cm == {i \in cand : o.mt = MimeOfName(FileName(scn.files[i]))}
         ctok == cm # {} IN
     IF cand = {} THEN (IF rq.m = "HEAD" THEN "200-head-on-unserved-path"
                        ELSE IF o.eqout THEN "200-file-outside-directory"
                        ELSE IF o.eqlate THEN "200-content-written-after-mount"
                        ELSE IF o.eq # <<>> \/ o.eqall # <<>> THEN "200-some-file" ELSE "200-other")
     ELSE IF ~ctok THEN "200-wrong-content-type"
     ELSE IF rq.m = "HEAD" THEN (IF o.blen = 0 /\ o.tail = 0 THEN "200-head" ELSE "200-head-with-body")
     ELSE IF \E i \in cm : i \in RangeOf(o.eq) THEN (IF o.tail = 0 THEN "200-exact" ELSE "200-exact-then-garbage")
     ELSE IF o.blen = 0 /\ (\E i \in cm : i \in RangeOf(o.eqall)) THEN "200-declared-length-0-then-file-bytes"
     ELSE IF o.eqlate THEN "200-content-written-after-mount"
     ELSE IF o.eq # <<>> \/ o.eqall # <<>> THEN "200-bytes-of-another-file"
     ELSE "200-wrong-bytes"
  ELSE IF o.status = 404 THEN "404"
  ELSE IF o.status = 405 THEN "405"
  ELSE "status-other"

\* a scenario exercises the mechanism when the derivation of routes is not the identity on a flat directory
NonTrivial(scn) == /\ Len(scn.files) >= 2
                   /\ \/ \E i \in FilesIx(scn) : Len(scn.files[i].path) >= 2
                      \/ \E i \in FilesIx(scn) : IsIndex(scn.files[i])
                      \/ \E i \in FilesIx(scn) : Omitted(FileName(scn.files[i]), scn.omit)

\* ------------------------------------------------------------------ layer (b): what routing.rs + the router do
\* `for ext in exts { if name.strip_suffix(".{ext}") .. truncate; break }` — first configured extension that is a suffix
RECURSIVE ImplStrip(_, _)
ImplStrip(name, omit) == IF omit = <<>> THEN name
                         ELSE IF IsSuffixOf(<<".">> \o omit[1], name) THEN DropLast(name, Len(omit[1]) + 1)
                         ELSE ImplStrip(name, Tail(omit))

\* `register`: base_path = route.trim_end_matches('/'); "" => base or "/"; some => base + "/" + some
ImplRouteSegs(scn, rel) == scn.mount \o rel

\* registrations made for one file, in order (segment sequences; <<>> is "/")
ImplRegsOfFile(scn, f) ==
  LET htmlOmitted == HTML \in RangeOf(scn.omit)
      own == IF IsIndex(f) /\ (~htmlOmitted \/ FIX_INDEX_OWN)
               THEN <<ImplRouteSegs(scn, IF htmlOmitted THEN FileDir(f) \o <<StemOf(INDEX)>> ELSE f.path)>> ELSE <<>>
      \* `path.pop()` for index.html, *then* the omit loop looks at `path.last()` — the directory's name
      p1 == IF IsIndex(f) THEN FileDir(f) ELSE f.path
      p2 == IF p1 = <<>> \/ (IsIndex(f) /\ FIX_DIRNAME) THEN p1
            ELSE FrontOf(p1) \o <<ImplStrip(LastOf(p1), scn.omit)>>
  IN own \o <<ImplRouteSegs(scn, p2)>>

\* StaticFileHandler::new refuses (panics): no extension, unknown extension, text/* that is not UTF-8
ImplFileRefused(f) == \/ ~HasExt(FileName(f)) \/ ~KnownExt(ExtOf(FileName(f)))
                      \/ (TextName(FileName(f)) /\ f.cls = "badtext")

\* all registrations <<route segments, file index>>
ImplRegs(scn) == UNION {{<<ImplRegsOfFile(scn, scn.files[i])[k], i>> : k \in DOMAIN ImplRegsOfFile(scn, scn.files[i])} : i \in FilesIx(scn)}

\* RouteSegments::from_literal panics on an invalid segment; a leading ':' would make a parameter (not modelled: outside the alphabet)
ImplRouteValid(r) == \A k \in DOMAIN r : ValidSeg(r[k])

\* the mount panics ("Conflicting handler registering") when two registrations have the same route
ImplMount(scn) ==
  IF \E i \in FilesIx(scn) : ImplFileRefused(scn.files[i]) THEN "refused-file"
  ELSE IF \E g \in ImplRegs(scn) : ~ImplRouteValid(g[1]) THEN "refused-route"
  ELSE IF \E g, h \in ImplRegs(scn) : g # h /\ g[1] = h[1] THEN "refused-conflict"
  ELSE "mounted"

\* the router: a trie over segments; at each node the children are tried in *reverse alphabetical* order and the
\* first child whose pattern "/seg" is a BYTE PREFIX of the remaining path is taken, without backtracking
\* (router/final.rs search_target / take_through).  All candidates are prefixes of the same bytes, hence nested:
\* reverse alphabetical order tries the longest first, forward order the shortest.
\* Single-child compression is not modelled: for purely static tries it does not change which full paths hit.
ImplRoutes(scn) == {g[1] : g \in ImplRegs(scn)}
ImplChildren(scn, prefix) == {r[Len(prefix) + 1] : r \in {r \in ImplRoutes(scn) : Len(r) > Len(prefix) /\ SubSeq(r, 1, Len(prefix)) = prefix}}
RECURSIVE ImplSearch(_, _, _)
ImplSearch(scn, prefix, bytes) ==
  IF bytes = <<>> THEN [hit |-> TRUE, node |-> prefix]
  ELSE LET cands == {c \in ImplChildren(scn, prefix) : IsPrefixOf(<<"/">> \o c, bytes)} IN
       IF cands = {} THEN [hit |-> FALSE, node |-> prefix]
       ELSE LET c == IF SORT = "reverse" THEN CHOOSE c \in cands : \A d \in cands : Len(d) <= Len(c)
                                          ELSE CHOOSE c \in cands : \A d \in cands : Len(d) >= Len(c)
            IN ImplSearch(scn, Append(prefix, c), DropFirst(bytes, Len(c) + 1))

\* Path::init_with_request_bytes: exactly one trailing '/' is stripped ("/" becomes the empty path); no decoding
ImplNormalize(p) == IF p # <<>> /\ LastOf(p) = "/" THEN FrontOf(p) ELSE p

\* response of the implementation model: [status, file (0 = none), framed ("exact" | "length-0-then-bytes" | "none")]
ImplResp(scn, rq) ==
  LET s == ImplSearch(scn, <<>>, ImplNormalize(PathOf(rq.path)))
      owners == {g[2] : g \in {g \in ImplRegs(scn) : g[1] = s.node}}
  IN IF rq.m = "POST" \/ ~s.hit \/ owners = {} THEN [status |-> 404, file |-> 0, framed |-> "none"]
     ELSE LET i == CHOOSE i \in owners : TRUE IN
          [status |-> 200, file |-> i,
           \* Response::OK() starts with `Content-Length: 0`; the handler assigns `res.content` directly
           framed |-> IF rq.m = "HEAD" THEN "none"
                      ELSE IF FIX_LENGTH \/ scn.files[i].cls = "empty" THEN "exact" ELSE "length-0-then-bytes"]

\* (b) against (a): routing facet and framing facet separately, deviations named
ImplRoutingOK(scn, rq) ==
  LET r == ImplResp(scn, rq)
      p == PathOf(rq.path)
      al == AllowedGet(scn, p)
  IN \/ Unjudged \in al
     \/ (r.status = 404 /\ (NotFound \in al \/ rq.m # "GET"))
     \/ (r.status = 200 /\ Serve(r.file) \in al)
ImplDeviation(scn, rq) ==
  LET r == ImplResp(scn, rq)
      pc == PathClass(scn, PathOf(rq.path))
  IN IF ImplRoutingOK(scn, rq) THEN (IF r.framed = "length-0-then-bytes" THEN "declared-length-0" ELSE "none")
     ELSE IF pc = "index-own-path-ext-omitted" /\ r.status = 404 THEN "index-own-path-not-registered"
     ELSE IF pc = "dir-of-index-dirname-has-omitted-ext" /\ r.status = 404 THEN "dirname-extension-stripped"
     ELSE IF pc = "dirname-with-ext-stripped" /\ r.status = 200 THEN "dirname-extension-stripped"
     ELSE "UNEXPLAINED"
=============================================================================
