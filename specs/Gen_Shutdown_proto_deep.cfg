SPECIFICATION GSpec
CONSTANTS
  RECHECK = TRUE
  MaxArrivals = 0
  MaxSpurious = 2
  MaxSignals = 1
  MODE = "proto"
INVARIANT Emit
CHECK_DEADLOCK FALSE
