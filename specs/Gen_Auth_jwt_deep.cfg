CONSTANTS
  WHAT = "jwt"
  DEEP = TRUE
  EMIT = TRUE
