SPECIFICATION TSpec
CONSTANTS
  LastDay = 2932896
  StepUntil = 0
  TailFrom = 2932896
  MaxN = 0
  LeapRule = "gregorian"
  StartDay = 0
  NumLane = 1
CHECK_DEADLOCK FALSE
