SPECIFICATION GSpec
CONSTANTS
  MaxLen = 7
  MaxFaults = 1
  TOPLEN = 2
  PCTLEN = 3
  RICH = FALSE
  DECS = {"setcookie"}
INVARIANT Emit
CHECK_DEADLOCK FALSE
