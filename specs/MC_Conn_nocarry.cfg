SPECIFICATION MCSpec
CONSTANTS
  BUF = 4
  HEADLOOP = TRUE
  CARRY = FALSE
  MaxReqs = 2
  MaxBody = 3
  MaxCuts = 3
INVARIANT RefinesExactly
CHECK_DEADLOCK FALSE
