------------------------------ MODULE ConnGen ------------------------------
(* Scenario emission for C05 / C06.  C06: every request sequence x segmentation of the bounded Conn model, emitted
   at quiescence together with what the model predicts.  C05: request histories with one segment per request over
   richer request shapes (the extra fields only steer the concretisation: NUL as first body byte, many headers,
   a context-setting marker, Connection: close). *)
EXTENDS MC_Conn, Json, SequencesExt

CONSTANT MODE     \* "c05" | "c06"
Extras == [z : BOOLEAN, mark : BOOLEAN, many : BOOLEAN]
\* C06: a refused request may sit anywhere in the sequence and share a segment with what came before it, but a segment ends where it
\* ends (where a refused request ends is not defined by its bytes, so whatever is read together with it may go with it: outside the quantifier)
BadEnds(rs) == {EndPos(rs, k) : k \in {j \in 1..(Len(rs) - 1) : rs[j].bad}}
\* C05: one segment per request, or -- a pipelining client -- several whole requests in one segment (a request is never split here: that is
\* C06's subject); a segment still ends where a refused request ends
AlignedCuts(rs) == {EndPos(rs, k) : k \in 1..(Len(rs) - 1)}
WholeRequestCuts(rs) == {c \in SUBSET AlignedCuts(rs) : BadEnds(rs) \subseteq c}

GChooseReqs == /\ pc = "setup-reqs" /\ \E rs \in ReqSeqs : reqs' = rs
               /\ pc' = "setup-cuts" /\ UNCHANGED <<cuts, inbox, buf, cur, resp, dropped>>
GChooseCuts == /\ pc = "setup-cuts"
               /\ \E cs \in (IF MODE = "c05" THEN WholeRequestCuts(reqs) ELSE {c \in CutSets(Len(Stream(reqs)) - 1, MaxCuts) : BadEnds(reqs) \subseteq c}) :
                     (cuts' = cs /\ inbox' = Segments(reqs, cs))
               /\ pc' = "read" /\ UNCHANGED <<reqs, buf, cur, resp, dropped>>
GNext == GChooseReqs \/ GChooseCuts \/ Step
GSpec == MCInit /\ [][GNext]_vars

\* extras are a function of the scenario (so that emission stays one line per scenario): rotate through the combinations
ExtraOf(k, salt) == LET n == (k * 3 + salt) % 8 IN [z |-> n % 2 = 1, mark |-> (n \div 2) % 2 = 1, many |-> (n \div 4) % 2 = 1]
Salt == Len(Stream(reqs)) + Cardinality(cuts)
\* C06: in some scenarios one request has empty lines in front of its request line (outside the grammar: the Conn model does not predict what
\* happens then; the trace specification asks that it be the same for every segmentation)
LeadOf(k, salt) == MODE = "c06" /\ (\A j \in DOMAIN reqs : ~reqs[j].bad) /\ (k * 5 + salt) % 6 = 0
AnyLead == \E k \in DOMAIN reqs : LeadOf(k, Salt)
Emit == Quiescent =>
   PrintT(ToJson([mode |-> MODE,
                  reqs |-> [k \in DOMAIN reqs |-> [h |-> reqs[k].h, b |-> reqs[k].b, close |-> reqs[k].close, bad |-> reqs[k].bad,
                                                     z |-> ExtraOf(k, Salt).z, mark |-> ExtraOf(k, Salt).mark, many |-> ExtraOf(k, Salt).many, lead |-> LeadOf(k, Salt)]],
                  cuts |-> SetToSortSeq(cuts, <),
                  model |-> [resp |-> IF AnyLead THEN <<>> ELSE [i \in DOMAIN resp |-> IF resp[i].k = 0 THEN 0 ELSE IF reqs[resp[i].k].bad THEN 0 ELSE resp[i].k],     \* 0: an error response, as the harness classifies it
                             dropped |-> dropped, fin |-> pc]]))
=============================================================================
