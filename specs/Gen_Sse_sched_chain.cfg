SPECIFICATION GSpec
CONSTANTS
  MaxScript = 3
  MaxSpurious = 1
  FORWARD_WAKER = TRUE
  READY_DRAINS = TRUE
  FILTER_MODE = "none"
  CHAIN_MODE = "chain"
  MODE = "sched"
  MaxTok = 0
  MaxPairTok = 0
  Toks = {}
INVARIANT Emit
CHECK_DEADLOCK FALSE
